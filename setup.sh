#!/bin/bash
# Offline build of the overlay venv /verif/.venv on top of /venv (which has pyrex's deps).
set -e
HERE="$(cd "$(dirname "${BASH_SOURCE[0]}")" && pwd)"
cd "$HERE"
if [ -x .venv/bin/python ] && .venv/bin/python -c "import z3, numpy, scipy, h5py, jsonschema" 2>/dev/null; then
  echo "venv ok"; exit 0
fi
rm -rf .venv
/venv/bin/python -m venv .venv
SP=$(.venv/bin/python -c "import sysconfig; print(sysconfig.get_paths()['purelib'])")
echo "import site; site.addsitedir('/venv/lib/python3.12/site-packages')" > "$SP/_base_venv.pth"
PIP_NO_INDEX=1 .venv/bin/pip install -q --no-index --find-links /opt/veriftools/wheels z3-solver jsonschema cvc5 crosshair-tool sympy 2>&1 | tail -2
.venv/bin/python -c "import z3, numpy, scipy, h5py, jsonschema; print('venv built; z3', z3.get_version_string())"
