#!/bin/bash
# tools/runall.sh <tier> <seed> [ids...]: run checks sequentially, print exit codes
tier=${1:-quick}; seed=${2:-0}; shift 2
ids=${@:-C01 C02 C03 C04 C05 C06 C07 C08 C09 C10 C11 C12 C13 C14 C15 C16 C17 C18 C19}
mkdir -p /tmp/runall
for id in $ids; do
  s=$(date +%s)
  SYMX_HONOR_SEED=1 VERIF_SEED=$seed /verif/check $id --tier $tier > /tmp/runall/$id.$tier.$seed.log 2>&1
  rc=$?
  echo "$id $tier seed=$seed exit=$rc $(( $(date +%s) - s ))s $(tail -1 /tmp/runall/$id.$tier.$seed.log | cut -c1-200)"
done
