#!/usr/bin/env python3
"""Regenerate MANIFEST.json from the harness modules present (+ the table below)."""
import json, os, sys
V = os.path.dirname(os.path.dirname(os.path.abspath(__file__)))
props = [json.loads(l) for l in open(os.path.join(V, 'properties.jsonl'))]
TABLE = json.load(open(os.path.join(V, 'tools', 'manifest_table.json')))
checks = []
na = []
for p in props:
    pid = p['id']
    t = TABLE.get(pid)
    if t and t.get('claimed') and os.path.exists(os.path.join(V, 'harness', pid + '.py')):
        checks.append({
            'property_id': pid,
            'quick_cmd': './check %s --tier quick' % pid,
            'thorough_cmd': './check %s --tier thorough' % pid,
            'evidence_file': '/verif/evidence/%s.json' % pid,
            'replay_cmd_template': './check %s --replay {path}' % pid,
            'engine': 'symx',
            'level_claimed': {'category': 'other', 'text': t['text'], 'design_ref': t.get('design_ref', 'DESIGN.md 2 (%s)' % pid)},
            'level_note': t['note'],
            'technique': t.get('technique', 'bounded symbolic execution of the real Python functions on z3 terms (SMT-decided obligations, counterexamples replayed in float)'),
        })
    else:
        na.append({'property_id': pid, 'reason': (t or {}).get('na_reason', 'check not built yet in this round; no claim is made')})
m = {
    'version': 1,
    'setup_cmd': './setup.sh',
    'hooks': {'guard': 'PYREX_VERIF', 'enable': 'no source hooks: the engine substitutes module globals (np, scipy, h5py, logger) of the imported pyrex modules from outside for the duration of one symbolic run; PYREX_VERIF=1 is exported by ./check for uniformity only',
              'baseline_off_cmd': 'cd /repo && /venv/bin/python -m pytest -ra -q -p no:cacheprovider --timeout=900 --continue-on-collection-errors',
              'source_commits': [], 'add_only': True},
    'engines': [{'name': 'symx', 'path': '/verif/symx', 'serves_properties': [c['property_id'] for c in checks],
                 'kind_free_text': 'decision-replay symbolic executor for numpy-calling Python: polynomial-normal-form solver terms stored in object-dtype ndarrays, module-global shims for numpy/scipy/h5py, z3 4.x/5.x as the deciding solver, float replay of every model on the unshimmed code'}],
    'checks': checks,
    'not_applicable': na,
    'notes': 'Exit 0 held / 1 VIOLATION / 2 harness error (inconclusive required obligation, unrefuted twin, engine error). Known findings: /verif/known_findings.json. Fix commits in /repo are unguarded and listed there as fixed: entries.',
}
json.dump(m, open(os.path.join(V, 'MANIFEST.json'), 'w'), indent=1)
print('checks:', [c['property_id'] for c in checks], 'n/a:', [n['property_id'] for n in na])
