#!/bin/bash
# usage: confirm_seed.sh C05 m1   -- independent confirmation of a seeded mutation in its scratch worktree
P=$1; M=$2; WT=/tmp/seed/$P; D=$WT/_seed/$M
cd $WT || exit 9
git checkout -q -- . ; git status --short | grep -v "_seed" 
git apply --check $D/patch.diff || { echo "PATCH DOES NOT APPLY"; exit 9; }
PYTHONPATH=$WT /venv/bin/python $D/demo.py >/dev/null 2>&1; c0=$?
git apply $D/patch.diff
t=$(/venv/bin/python -m pytest -q -p no:cacheprovider --timeout=900 tests 2>&1 | tail -1)
PYTHONPATH=$WT /venv/bin/python $D/demo.py >/dev/null 2>&1; c1=$?
git checkout -q -- .
echo "$P $M clean_demo=$c0 mutated_demo=$c1 tests: $t"
