#!/bin/bash
# usage: seedrun_wt.sh <ID> <m>   -- run the quick check of <ID> against the scratch worktree /tmp/seed/<ID>
# with _seed/<m>/patch.diff applied there (PYREX_REPO), always undone; log in _seed/<m>/check.log
P=$1; M=$2; WT=/tmp/seed/$P; D=$WT/_seed/$M
cd $WT || exit 9
git checkout -q -- . ; git apply $D/patch.diff || exit 9
cd /verif && PYREX_REPO=$WT ./check $P --tier quick --jobs ${JOBS:-4} > $D/check.log 2>&1
echo "$P $M exit=$? $(grep -c '^VIOLATION' $D/check.log) violations; $(tail -1 $D/check.log | cut -c1-200)"
cd $WT && git checkout -q -- .
