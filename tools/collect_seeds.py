#!/usr/bin/env python3
"""Copy confirmed seeded mutations into /verif/seeded/<prop>-<m>/ and (re)evaluate the
property's quick check against each: tools/collect_seeds.py C05 C06 ...
(apply to /repo, run ./check, always undo)."""
import json, os, re, shutil, subprocess, sys
V = '/verif'
props = sys.argv[1:]
conf = {}
for f in ('/tmp/seed/confirm_batch1.log', '/tmp/seed/confirm_batch2.log'):
    if os.path.exists(f):
        for l in open(f):
            m = re.match(r'(C\d+) (m\d) clean_demo=(\d+) mutated_demo=(\d+) tests: (.*)', l)
            if m:
                conf[(m.group(1), m.group(2))] = m.groups()[2:]
assert subprocess.run(['git', '-C', '/repo', 'diff', '--quiet']).returncode == 0, 'repo dirty'
for p in props:
    for mk in ('m1', 'm2'):
        src = '/tmp/seed/%s/_seed/%s' % (p, mk)
        dst = os.path.join(V, 'seeded', '%s-%s' % (p, mk))
        if os.path.isdir(src):
            os.makedirs(dst, exist_ok=True)
            for fn in ('patch.diff', 'demo.py', 'notes.md'):
                if fn == 'patch.diff' and os.path.exists(os.path.join(dst, 'patch.orig.diff')):
                    continue          # a rebased patch is in place
                if os.path.exists(os.path.join(src, fn)):
                    shutil.copy(os.path.join(src, fn), os.path.join(dst, fn))
        if not os.path.isdir(dst):
            continue
        metap = os.path.join(dst, 'meta.json')
        meta = json.load(open(metap)) if os.path.exists(metap) else {}
        notes = open(os.path.join(dst, 'notes.md')).read() if os.path.exists(os.path.join(dst, 'notes.md')) else ''
        meta.update({'property': p, 'mutation': mk,
                     'origin': 'fresh sub-agent given only the property text and its own scratch worktree (base commit c92a56d = /repo after the four numpy/py3.12 fix commits)',
                     'needs_to_manifest': notes.strip()[:1500]})
        c = conf.get((p, mk))
        if c:
            meta['confirmed_by_me'] = {'worktree': '/tmp/seed/%s (scratch, removed afterwards)' % p,
                                       'demo_exit_clean_tree': int(c[0]), 'demo_exit_mutated_tree': int(c[1]),
                                       'test_suite_with_mutation': c[2].strip(),
                                       'commands': ['git apply _seed/%s/patch.diff' % mk,
                                                    '/venv/bin/python -m pytest -q -p no:cacheprovider --timeout=900 tests',
                                                    'PYTHONPATH=<wt> /venv/bin/python _seed/%s/demo.py' % mk,
                                                    'git checkout -- . ; demo again']}
        patch = os.path.join(dst, 'patch.diff')
        ok = subprocess.run(['git', '-C', '/repo', 'apply', '--check', patch]).returncode == 0
        meta['applies_to_repo_head'] = ok
        if os.path.exists(os.path.join(dst, 'patch.orig.diff')):
            meta['rebased'] = 'patch.diff is the sub-agent patch (patch.orig.diff) 3-way re-applied onto the current /repo HEAD after later fix commits touched the same file; tests and demo re-confirmed there (tools/rebase_seed.sh)'
        if ok and os.path.exists(os.path.join(V, 'harness', p + '.py')):
            subprocess.run(['git', '-C', '/repo', 'apply', patch], check=True)
            try:
                r = subprocess.run(['./check', p, '--tier', 'quick'], cwd=V, capture_output=True, text=True, timeout=3000)
            finally:
                subprocess.run(['git', '-C', '/repo', 'checkout', '--', '.'], check=True)
            labels = sorted(set(re.findall(r'harness=(\S+) label=(\S+)', r.stdout)))
            meta['check_result'] = {'cmd': './check %s --tier quick' % p, 'exit': r.returncode,
                                    'violations': ['%s:%s' % l for l in labels][:12],
                                    'summary': r.stdout.strip().splitlines()[-1][:300] if r.stdout.strip() else ''}
            print(p, mk, 'exit', r.returncode, [('%s:%s' % l) for l in labels][:3])
        json.dump(meta, open(metap, 'w'), indent=1)
