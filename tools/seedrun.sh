#!/bin/bash
# usage: seedrun.sh <patch.diff> <ID> [tier] [extra args]  -- apply to /repo, run check, always undo
PATCH=$1; ID=$2; TIER=${3:-quick}; shift 3
cd /repo && git diff --quiet || { echo "repo dirty"; exit 9; }
git -C /repo apply "$PATCH" || exit 9
cd /verif && ./check $ID --tier $TIER "$@" 2>&1 | grep -E "VIOLATION|HARNESS-ERROR|KNOWN|exit|label=|observed" | cut -c1-400
git -C /repo checkout -- .
