#!/bin/bash
# usage: rebase_seed.sh C17 m1 : 3-way apply the seed onto current /repo HEAD in a scratch worktree, re-confirm, store
P=$1; M=$2; WT=/tmp/seed/HEADWT; SRC=/tmp/seed/$P/_seed/$M; DST=/verif/seeded/$P-$M
mkdir -p $DST; cd $WT || exit 9
git reset -q --hard $(git -C /repo rev-parse HEAD)
PYTHONPATH=$WT /venv/bin/python $SRC/demo.py >/dev/null 2>&1; c0=$?
git apply --3way $SRC/patch.diff >/dev/null 2>&1 || { echo "$P $M 3way FAILED"; git reset -q --hard; exit 1; }
git diff HEAD > /tmp/seed/rebased.diff
t=$(/venv/bin/python -m pytest -q -p no:cacheprovider --timeout=900 tests 2>&1 | tail -1)
PYTHONPATH=$WT /venv/bin/python $SRC/demo.py >/dev/null 2>&1; c1=$?
git reset -q --hard
cp $SRC/patch.diff $DST/patch.orig.diff; cp /tmp/seed/rebased.diff $DST/patch.diff; cp $SRC/demo.py $SRC/notes.md $DST/ 2>/dev/null
echo "$P $M rebased onto $(git -C /repo rev-parse --short HEAD): clean_demo=$c0 mutated_demo=$c1 tests: $t"
