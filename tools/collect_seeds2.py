#!/usr/bin/env python3
"""Second round (m3, m4): copy confirmed seeded mutations from the scratch worktrees
/tmp/seed/<prop>/_seed/<m>/ into /verif/seeded/<prop>-<m>/ and record (i) my own
confirmation (tools/confirm_seed.sh -> /tmp/seed/confirm_batch3.log) and (ii) the result of
the property's quick check run against the worktree with the patch applied
(tools/seedrun_wt.sh, PYREX_REPO=<worktree> -> _seed/<m>/check.log).
usage: tools/collect_seeds2.py C01 C02 ...   (default: all)"""
import json, os, re, shutil, subprocess, sys
V = '/verif'
props = sys.argv[1:] or ['C%02d' % i for i in range(1, 20)]
conf = {}
for l in open('/tmp/seed/confirm_batch3.log'):
    m = re.match(r'(C\d+) (m\d) clean_demo=(\d+) mutated_demo=(\d+) tests: (.*)', l)
    if m:
        conf[(m.group(1), m.group(2))] = m.groups()[2:]
head = subprocess.run(['git', '-C', '/repo', 'rev-parse', '--short', 'HEAD'], capture_output=True, text=True).stdout.strip()
for p in props:
    for mk in ('m3', 'm4'):
        src = '/tmp/seed/%s/_seed/%s' % (p, mk)
        if not os.path.isdir(src):
            continue
        dst = os.path.join(V, 'seeded', '%s-%s' % (p, mk))
        os.makedirs(dst, exist_ok=True)
        for fn in ('patch.diff', 'demo.py', 'notes.md'):
            if os.path.exists(os.path.join(src, fn)):
                shutil.copy(os.path.join(src, fn), os.path.join(dst, fn))
        metap = os.path.join(dst, 'meta.json')
        meta = json.load(open(metap)) if os.path.exists(metap) else {}
        notes = open(os.path.join(dst, 'notes.md')).read() if os.path.exists(os.path.join(dst, 'notes.md')) else ''
        meta.update({'property': p, 'mutation': mk,
                     'origin': 'fresh sub-agent (round 2) given only the property record and its own scratch '
                               'worktree /tmp/seed/%s of /repo HEAD %s; nothing from /verif' % (p, head),
                     'needs_to_manifest': notes.strip()[:1800]})
        c = conf.get((p, mk))
        if c:
            meta['confirmed_by_me'] = {'worktree': '/tmp/seed/%s (scratch, removed afterwards)' % p,
                                       'demo_exit_clean_tree': int(c[0]), 'demo_exit_mutated_tree': int(c[1]),
                                       'test_suite_with_mutation': c[2].strip(),
                                       'commands': ['tools/confirm_seed.sh %s %s' % (p, mk),
                                                    '= demo on clean tree; git apply patch.diff; '
                                                    '/venv/bin/python -m pytest -q -p no:cacheprovider --timeout=900 tests; '
                                                    'demo again; git checkout -- .']}
        meta['applies_to_repo_head'] = subprocess.run(
            ['git', '-C', '/repo', 'apply', '--check', os.path.join(dst, 'patch.diff')]).returncode == 0
        log = os.path.join(src, 'check.log')
        if os.path.exists(log):
            out = open(log).read()
            labels = sorted(set(re.findall(r'harness=(\S+) label=(\S+)', out)))
            last = out.strip().splitlines()[-1][:300] if out.strip() else ''
            m = re.search(r'-> exit (\d)', last)
            meta['check_result'] = {'cmd': 'PYREX_REPO=/tmp/seed/%s ./check %s --tier quick (patch applied in the worktree)' % (p, p),
                                    'exit': int(m.group(1)) if m else None,
                                    'violations': ['%s:%s' % l for l in labels][:12], 'summary': last}
            print(p, mk, meta['check_result']['exit'], meta['check_result']['violations'][:2])
        json.dump(meta, open(metap, 'w'), indent=1)
