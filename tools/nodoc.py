#!/usr/bin/env python3
"""print a python file without docstrings/comments: tools/nodoc.py file [start_marker]"""
import ast, sys
src = open(sys.argv[1]).read()
t = ast.parse(src)
for n in ast.walk(t):
    if isinstance(n, (ast.FunctionDef, ast.ClassDef, ast.Module)):
        if n.body and isinstance(n.body[0], ast.Expr) and isinstance(getattr(n.body[0], 'value', None), ast.Constant) and isinstance(n.body[0].value.value, str):
            n.body = n.body[1:] or [ast.Pass()]
print(ast.unparse(t))
