"""C19 - detector composition visits every antenna once; triggers and clears as the union.

Encoded: flatten, mirror_func (pyrex/internal_functions.py); Detector.__init__/__iter__/
__len__/__getitem__/__add__/__radd__/build_antennas/triggered/clear/_test_positions/
_is_base_subset/_mirror_build_function; CombinedDetector.__init__/__add__/__radd__/__iadd__/
triggered/antenna_positions (pyrex/detector.py).
"""
import itertools
import numpy as np

from symx.explore import Harness
from symx import poly as P


def _mods():
    import pyrex.detector
    import pyrex.internal_functions
    return [pyrex.detector, pyrex.internal_functions]


def _enc():
    from pyrex.detector import Detector as D, CombinedDetector as C
    from pyrex.internal_functions import flatten, mirror_func
    return [flatten, mirror_func, D.__init__, D.__iter__, D.__len__, D.__getitem__, D.__add__,
            D.__radd__, D.build_antennas, D.triggered, D.clear, D._test_positions,
            D._is_base_subset.fget, D._mirror_build_function, C.__init__, C.__add__, C.__radd__,
            C.__iadd__, C.triggered, C.antenna_positions.fget]


class World:
    """Stub antennas with symbolic hit flags, and detector subclasses of several shapes."""

    def __init__(self, ex):
        from pyrex.detector import Detector
        self.ex = ex
        self.count = 0
        self.order = []
        world = self

        class Ant:
            def __init__(self, position=(0, 0, -1), tag=None, **kw):
                self.position = position
                self.uid = world.count
                world.count += 1
                world.order.append(self)
                self.hit = ex.boolean('hit%d' % self.uid)
                self.mc = ex.boolean('mc%d' % self.uid)
                self.cleared = None
                self.kw = kw

            @property
            def is_hit(self):
                return self.hit

            @property
            def is_hit_mc_truth(self):
                return self.mc

            def clear(self, reset_noise=False):
                self.cleared = reset_noise

        class Line(Detector):
            """base detector: n antennas in a string"""
            def set_positions(self, n, x=0.0, z0=-10.0):
                for i in range(n):
                    self.antenna_positions.append((x, 0.0, z0 - 5.0 * i))

        class LineB(Detector):
            """base detector whose trigger/build accept other keywords"""
            def set_positions(self, n, x=0.0, z0=-10.0):
                for i in range(n):
                    self.antenna_positions.append((x, 1.0, z0 - 5.0 * i))

            def build_antennas(self, antenna_class, tag='b', gain=1):
                self.got_build = {'tag': tag, 'gain': gain}
                super().build_antennas(antenna_class, tag=tag)

            def triggered(self, min_hits=1, require_mc_truth=False):
                self.got_trig = {'min_hits': min_hits, 'require_mc_truth': require_mc_truth}
                return super().triggered(require_mc_truth=require_mc_truth)

        class LineC(Detector):
            def set_positions(self, n, x=0.0, z0=-10.0):
                for i in range(n):
                    self.antenna_positions.append((x, 2.0, z0 - 5.0 * i))

            def build_antennas(self, antenna_class, power=0):
                self.got_build = {'power': power}
                super().build_antennas(antenna_class)

            def triggered(self, thr=0, require_mc_truth=False):
                self.got_trig = {'thr': thr, 'require_mc_truth': require_mc_truth}
                return super().triggered(require_mc_truth=require_mc_truth)

        class Grid(Detector):
            """nested detector: k lines"""
            def set_positions(self, k, n, z0=-10.0):
                for j in range(k):
                    self.subsets.append(Line(n, x=10.0 * j, z0=z0))

        class Deep(Detector):
            """doubly nested: grids of lines"""
            def set_positions(self, g, k, n):
                for j in range(g):
                    self.subsets.append(Grid(k, n))

        self.Ant, self.Line, self.LineB, self.LineC, self.Grid, self.Deep = \
            Ant, Line, LineB, LineC, Grid, Deep

    def make(self, kind):
        """An operand of the given kind, built; returns (object, list of its antennas in
        construction order)."""
        start = len(self.order)
        if kind == 'line1':
            d = self.Line(1)
            d.build_antennas(self.Ant)
        elif kind == 'line2':
            d = self.Line(2)
            d.build_antennas(self.Ant)
        elif kind == 'lineB':
            d = self.LineB(2)
            d.build_antennas(self.Ant)
        elif kind == 'lineC':
            d = self.LineC(1)
            d.build_antennas(self.Ant)
        elif kind == 'grid':
            d = self.Grid(2, 2)
            d.build_antennas(self.Ant)
        elif kind == 'deep':
            d = self.Deep(2, 1, 2)
            d.build_antennas(self.Ant)
        elif kind == 'ant':
            d = self.Ant(position=(5.0, 5.0, -3.0))
        elif kind == 'list':
            d = [self.Ant(position=(6.0, 5.0, -3.0)), self.Ant(position=(7.0, 5.0, -4.0))]
        elif kind == 'comb':
            a = self.Line(1)
            a.build_antennas(self.Ant)
            b = self.Grid(1, 2)
            b.build_antennas(self.Ant)
            d = a + b
        else:
            raise ValueError(kind)
        return d, self.order[start:]


def _or(ex, flags):
    if ex.sym:
        return P.sb_or(*flags) if flags else False
    return any(flags)


def check_detector(ex, det, ants, tag, trig=True):
    """iteration / len / index agree with the construction order; trigger == union."""
    from pyrex.detector import Detector
    got = list(det)
    ex.same([a.uid for a in got], [a.uid for a in ants], 'iteration-order-' + tag)
    ex.same(len(det), len(ants), 'len-' + tag)
    ex.same([det[i].uid for i in range(len(ants))], [a.uid for a in ants], 'getitem-' + tag)
    if ants:
        ex.same(det[-1].uid, ants[-1].uid, 'getitem-negative-' + tag)
    for mc in (False, True):
        if not trig:
            continue
        r = det.triggered(require_mc_truth=mc)
        want = _or(ex, [(a.mc if mc else a.hit) for a in ants])
        if ex.twin == 'all':
            want = P.sb_and(*[(a.mc if mc else a.hit) for a in ants]) if ex.sym else \
                all((a.mc if mc else a.hit) for a in ants)
        ex.true(r == want if not ex.sym else P.mk_bool(P.b_z3(r) == P.b_z3(want)),
                'triggered==exists-hit-%s-%s' % ('mc' if mc else 'hit', tag))
    for rn in (False, True):
        for a in ants:
            a.cleared = None
        det.clear(reset_noise=rn)
        ex.same([a.cleared for a in ants], [rn] * len(ants), 'clear-reaches-all-' + tag)


def h_compose(ex):
    """every shape of operands, every parenthesisation of +, sum and +=: flattened content
    is the operands' antennas in order; operands are not modified by being added."""
    from pyrex.detector import CombinedDetector
    kinds = ex.case['kinds']
    W = World(ex)
    ops = [W.make(k) for k in kinds]
    # the trigger equivalence forks on every hit flag: evaluate it at ONE place per path
    # (chosen by a structural fork) so that the forks add up instead of multiplying
    sel = ex.choice(len(kinds) + 4)
    for i, (d, ants) in enumerate(ops):
        if hasattr(d, 'triggered'):
            check_detector(ex, d, ants, 'operand%d' % i, trig=(sel == i))
    objs = [d for d, _ in ops]
    allants = [a for _, ants in ops for a in ants]
    snap = [[x.uid for x in d] if hasattr(d, '__iter__') else None for d in objs]

    def is_det(x):
        return hasattr(x, 'triggered')

    forms = {}
    if len(objs) == 2:
        a, b = objs
        if is_det(a) or is_det(b):
            forms['a+b'] = lambda: a + b
    else:
        a, b, c = objs
        if (is_det(a) or is_det(b)):
            forms['(a+b)+c'] = lambda: (a + b) + c
        if (is_det(b) or is_det(c)) and (is_det(a) or True):
            forms['a+(b+c)'] = lambda: a + (b + c)
        if all(is_det(x) for x in objs):
            forms['sum'] = lambda: sum(objs)
    for fi, (nm, f) in enumerate(forms.items()):
        r = f()
        check_detector(ex, r, allants, nm, trig=(sel == len(kinds) + fi))
        ex.same(isinstance(r, CombinedDetector), True, 'result-is-combined-' + nm)
        # operands unchanged by the addition
        for i, d in enumerate(objs):
            if snap[i] is not None:
                ex.same([x.uid for x in d], snap[i], 'operand-unchanged-by-%s-%d' % (nm, i))
    # += on a combined detector
    first = [o for o in objs if is_det(o)]
    if first:
        acc = CombinedDetector(first[0])
        acc_ants = list(ops[objs.index(first[0])][1])
        for (d, ants) in ops:
            if d is first[0]:
                continue
            before = [x.uid for x in acc]
            acc += d
            acc_ants = acc_ants + list(ants)
            check_detector(ex, acc, acc_ants, 'iadd', trig=(sel == len(kinds) + 3))
            if snap[objs.index(d)] is not None:
                ex.same([x.uid for x in d], snap[objs.index(d)], 'iadd-operand-unchanged')


def h_kwargs(ex):
    """keyword arguments of build/trigger calls reach exactly the accepting sub-detectors,
    in every order of the sub-detectors."""
    order = ex.case['order']
    W = World(ex)
    mk = {'A': lambda: W.Line(1), 'B': lambda: W.LineB(2), 'C': lambda: W.LineC(1)}
    subs = [mk[k]() for k in order]
    det = subs[0] + subs[1]
    for s in subs[2:]:
        det = det + s
    if ex.case.get('combined_build', False):
        det.build_antennas(antenna_class=W.Ant, gain=7, power=3, tag='q')
        for k, s in zip(order, subs):
            if k == 'B':
                ex.same(s.got_build, {'tag': 'q', 'gain': 7}, 'build-kwargs-reach-B')
            if k == 'C':
                ex.same(s.got_build, {'power': 3}, 'build-kwargs-reach-C')
    else:
        for s in subs:
            s.build_antennas(W.Ant)
    ants = list(W.order)
    ex.same([a.uid for a in det], [a.uid for a in ants], 'iteration-order-after-build')
    ex.same(len(ants), sum({'A': 1, 'B': 2, 'C': 1}[k] for k in order), 'all-antennas-built')
    # no antenna is hit so that every sub-detector gets asked
    for a in ants:
        ex.assume(P.sb_not(a.hit) if ex.sym else not a.hit)
        ex.assume(P.sb_not(a.mc) if ex.sym else not a.mc)
    mh = 2 if ex.twin != 'lost' else 1
    r = det.triggered(min_hits=2, thr=5)
    ex.same(bool(r), False, 'not-triggered-without-hits')
    for k, s in zip(order, subs):
        if k == 'B':
            ex.same(s.got_trig, {'min_hits': mh, 'require_mc_truth': False},
                    'trigger-kwargs-reach-B')
        if k == 'C':
            ex.same(s.got_trig, {'thr': 5, 'require_mc_truth': False}, 'trigger-kwargs-reach-C')
    r = det.triggered(min_hits=3, require_mc_truth=True)
    for k, s in zip(order, subs):
        if k == 'B':
            ex.same(s.got_trig, {'min_hits': 3, 'require_mc_truth': True},
                    'trigger-kwargs-reach-B(mc)')
        if k == 'C':
            ex.same(s.got_trig, {'thr': 0, 'require_mc_truth': True},
                    'trigger-kwargs-reach-C(mc)')


def h_surface(ex):
    """antennas above the ice surface are rejected at every nesting level, incl. after +=."""
    from pyrex.detector import Detector, CombinedDetector
    W = World(ex)
    where = ex.case['where']
    z = ex.real('z', -100, 100)
    zs = [ex.real('z%d' % i, -100, 100) for i in range(2)]

    class Z(Detector):
        def set_positions(self, heights):
            for h in heights:
                self.antenna_positions.append((0.0, 0.0, h))

    class ZZ(Detector):
        def set_positions(self, heights):
            self.subsets.append(Z(heights[:1]))
            self.subsets.append(Z(heights[1:]))

    good = Z([-5.0])
    good.build_antennas(W.Ant)
    any_above = (P.sb_or(*[v > 0 for v in zs]) if ex.sym else any(v > 0 for v in zs))
    raised = False
    try:
        if where == 'base':
            Z(zs)
        elif where == 'nested':
            ZZ(zs)
        elif where == 'combined-antenna':
            good + W.Ant(position=(0.0, 0.0, zs[0]))
            any_above = zs[0] > 0
        elif where == 'combined-list':
            good + [W.Ant(position=(0.0, 0.0, zs[0])), W.Ant(position=(1.0, 0.0, zs[1]))]
        elif where == 'iadd':
            c = CombinedDetector(good)
            c += W.Ant(position=(0.0, 0.0, zs[0]))
            c += [W.Ant(position=(1.0, 0.0, zs[1]))]
        elif where == 'iadd-detector':
            c = CombinedDetector(good)
            bad = Z.__new__(Z)
            Z.test_antenna_positions = False
            try:
                bad = Z(zs)
            finally:
                Z.test_antenna_positions = True
            bad.build_antennas(W.Ant)
            c += bad
    except ValueError:
        raised = True
    if ex.twin == 'never':
        ex.same(raised, False, 'rejected-iff-above-surface')
        return
    if raised:
        ex.true(any_above, 'rejected-only-if-above-surface')
    else:
        ex.true(P.sb_not(any_above) if ex.sym else not any_above, 'accepted-only-if-all-below')


KINDS = ['line1', 'line2', 'lineB', 'grid', 'deep', 'ant', 'list', 'comb']


def _pairs(ks):
    return [{'kinds': list(p)} for p in itertools.product(ks, repeat=2)
            if any(k not in ('ant', 'list') for k in p)]


def _triples(ks):
    return [{'kinds': list(p)} for p in itertools.product(ks, repeat=3)
            if sum(k not in ('ant', 'list') for k in p) >= 2 and p[1] not in ('ant', 'list')
            or all(k not in ('ant', 'list') for k in p)]


HARNESSES = [
    Harness('compose', h_compose, _mods, encodes=_enc, twins=('all',),
            cases={'quick': [{'kinds': ['line2', 'grid'], '_twins': 1}] +
                   _pairs(['line1', 'grid', 'ant', 'list', 'comb']) +
                   _triples(['line2', 'comb', 'ant']),
                   'thorough': [{'kinds': ['line2', 'grid'], '_twins': 1}] + _pairs(KINDS) +
                   _triples(['line1', 'lineB', 'grid', 'deep', 'ant', 'list', 'comb'])},
            budget={'quick': {'max_paths': 5000, 'wall_s': 300},
                    'thorough': {'max_paths': 50000, 'wall_s': 1500}}),
    Harness('kwargs', h_kwargs, _mods, encodes=_enc, twins=('lost',),
            cases={'quick': [{'order': list(o)} for o in
                             (('A', 'B'), ('B', 'A'), ('A', 'B', 'C'), ('C', 'A', 'B'),
                              ('B', 'C'), ('C', 'B', 'A'))] +
                   [{'order': ['B', 'C'], 'combined_build': True},
                    {'order': ['C', 'B'], 'combined_build': True},
                    {'order': ['A', 'B'], 'combined_build': True}],
                   'thorough': [{'order': list(o)} for n in (2, 3)
                                for o in itertools.permutations('ABC', n)] +
                   [{'order': list(o), 'combined_build': True} for n in (2, 3)
                    for o in itertools.permutations('ABC', n)]}),
    Harness('surface', h_surface, _mods, encodes=_enc, twins=('never',),
            cases={'quick': [{'where': w} for w in ('base', 'nested', 'combined-antenna',
                                                    'combined-list', 'iadd', 'iadd-detector')],
                   'thorough': [{'where': w} for w in ('base', 'nested', 'combined-antenna',
                                                       'combined-list', 'iadd', 'iadd-detector')]}),
]

BOUNDS = {
    'quick': {'operands': 'all ordered pairs over {1-line, 2x2 grid, antenna, antenna list, '
              'combined}, triples over {line, combined, antenna}', 'nesting': 'depth <= 3',
              'hit flags': 'one free Boolean per antenna for hit and for MC truth',
              'heights': 'symbolic in [-100,100]'},
    'thorough': {'operands': 'all ordered pairs over 8 kinds, triples over 7 kinds'},
}
OUTSIDE = ["AntennaSystem / real antennas (stub antennas carry the hit flags; C09 covers the "
           "bookkeeping that produces them)", "more than three operands"]
ASSUMPTIONS = []
