"""C03 - ray propagation is passive, delays by time of flight, polarization transverse.

Encoded: BasicRayTracePath.propagate (both branches, with and without attenuation
interpolation); UniformRayTracePath.propagate/attenuation/fresnel (pyrex/ray_tracing.py);
Signal.__mul__/shift/copy/filter_frequencies (pyrex/signals.py); normalize.
"""
import math
import numpy as np

from symx.explore import Harness
from symx import poly as P
from harness.common import UFun
from harness.C05 import ref_filter


def _mods():
    import pyrex.ray_tracing
    import pyrex.signals
    import pyrex.ice_model
    import pyrex.internal_functions
    return [pyrex.ray_tracing, pyrex.signals, pyrex.ice_model, pyrex.internal_functions]


def _enc():
    import pyrex.ray_tracing as rt
    from pyrex.signals import Signal
    from pyrex.internal_functions import normalize
    return [rt.BasicRayTracePath.propagate, rt.UniformRayTracePath.propagate,
            rt.UniformRayTracePath.attenuation, rt.UniformRayTracePath.fresnel.fget,
            rt.BasicRayTracePath.fresnel.fget, Signal.filter_frequencies, Signal.shift,
            Signal.__mul__, normalize]


DT = 1e-9


def _path(ex, cls, theta_em, theta_rc, g, rs, rp, tof):
    """A path object of the real class with harness-chosen ingredients: directions in the
    x-z plane, attenuation an arbitrary function g(|f|) with values in (0,1], Fresnel pair
    (rs, rp), time of flight tof."""
    p = cls.__new__(cls)
    d = p.__dict__
    d['_static_attrs'] = []
    se, ce = np.sin(theta_em), np.cos(theta_em)
    sr, cr = np.sin(theta_rc), np.cos(theta_rc)
    d['_lazy_emitted_direction'] = ex.array([se, 0.0 * se, ce])
    d['_lazy_received_direction'] = ex.array([sr, 0.0 * sr, cr])
    d['_lazy_fresnel'] = (rs, rp)
    d['_lazy_tof'] = tof
    calls = []

    def attenuation(f, *a, **k):
        calls.append(f)
        return g(_canon(np.abs(f)))
    d['attenuation'] = attenuation
    p._att_calls = calls
    return p


def _canon(f):
    """frequencies are compared up to 9 significant digits (k/(n dt) computed in two orders
    differs in the last bit; the attenuation model is taken to be insensitive to that)"""
    if isinstance(f, np.ndarray):
        return np.array([_canon(x) for x in f.ravel()], dtype=float).reshape(f.shape)
    return float('%.9g' % float(f))


def _grid(n, interp):
    """the frequency grid the response is tabulated on (harness transcription)"""
    freqs = np.fft.fftfreq(2 * n, d=DT)
    if interp is None:
        return np.sort(freqs)
    pos = freqs[freqs > 0]
    lmin, lmax = math.log10(pos.min()), math.log10(freqs.max())
    steps = int((lmax - lmin) / interp)
    if (lmax - lmin) % interp:
        steps += 1
    logf = np.logspace(lmin, lmax, steps + 1)
    return np.concatenate((-logf[::-1], [0.0], logf))


def h_propagate(ex):
    """output on the input grid + tof; linear in the signal and in the polarization; each
    frequency component multiplied by interp(attenuation table)(f) x Fresnel coefficient (the
    table is the attenuation itself without interpolation), mirrored Hermitian; input
    untouched; s/p amplitudes are the projections on the polarization frame."""
    import pyrex.ray_tracing as rt
    from pyrex.signals import Signal
    cls = rt.BasicRayTracePath if ex.case['cls'] == 'basic' else rt.UniformRayTracePath
    n = ex.case['n']
    interp = ex.case.get('interp')
    use_pol = ex.case['pol']
    xs = ex.reals('x', n, -1, 1)
    t0 = ex.real('t0', -1e-6, 1e-6)
    tof = ex.real('tof', 1e-9, 1e-5)
    rs = ex.real('rs', -1, 1)
    rp = ex.real('rp', -1, 1)
    if ex.case.get('cfres'):
        # total internal reflection: complex coefficients (a phase per polarization)
        rsi, rpi = ex.real('rs_im', -1, 1), ex.real('rp_im', -1, 1)
        ex.assume(rs * rs + rsi * rsi <= 1)
        ex.assume(rp * rp + rpi * rpi <= 1)
        rs = P.cmk(rs, rsi) if ex.sym else complex(rs, rsi)
        rp = P.cmk(rp, rpi) if ex.sym else complex(rp, rpi)
    g = UFun(ex, 'att', lo=1e-3, hi=1.0, concrete=lambda f: math.exp(-abs(f) * 2e-9))
    th_e, th_r = ex.case.get('angles', (1.1, 0.8))
    path = _path(ex, cls, th_e, th_r, g, rs, rp, tof)
    times = [t0 + i * DT for i in range(n)]
    sig = Signal(ex.array(times), ex.array(xs), value_type='field')
    grid = _grid(n, interp)
    G = {round(float(f), 3): g(_canon(abs(float(f)))) for f in grid}

    def table(f):
        """interp(f; grid, attenuation(grid)) for a concrete f"""
        f = float(f)
        vals = [G[round(float(x), 3)] for x in grid]
        w = [np.interp(f, grid, np.eye(len(grid))[i]) for i in range(len(grid))]
        return sum(wi * vi for wi, vi in zip(w, vals) if wi != 0.0)
    kw = {} if cls is rt.UniformRayTracePath and interp is None else \
        {'attenuation_interpolation': interp}
    if cls is rt.UniformRayTracePath or interp is None:
        # no interpolation: the attenuation itself at every FFT frequency
        table = lambda f: g(_canon(abs(float(f))))
    if not use_pol:
        out = path.propagate(signal=sig, **kw)
        ex.close(out.times, [t + tof for t in times], 'delayed-by-tof', tol=1e-15)
        want = ref_filter(ex, xs, lambda f: table(f) + 0j, n, DT, False)
        if ex.twin == 'no-attenuation':
            want = list(xs)
        ex.close(out.values, want, 'spectrum-times-attenuation', tol=1e-9)
        ex.close(sig.values, xs, 'input-untouched', tol=0.0)
        ex.close(sig.times, times, 'input-times-untouched', tol=0.0)
        return
    pol = ex.case.get('polvec')
    if pol is None:
        pol = [ex.real('p%d' % i, -1, 1) for i in range(3)]
    (s_s, s_p), (u_s, u_p) = path.propagate(signal=sig, polarization=ex.array(pol), **kw)
    for nm, s_ in (('s', s_s), ('p', s_p)):
        ex.close(s_.times, [t + tof for t in times], 'delayed-by-tof:' + nm, tol=1e-15)
        ex.same(len(s_.values), n, 'one-value-per-sample:' + nm)
    # polarization frame for emitted = (sin a, 0, cos a), received = (sin b, 0, cos b)
    se, ce = math.sin(th_e), math.cos(th_e)
    sr, cr = math.sin(th_r), math.cos(th_r)
    us0 = [0.0, -1.0 if se > 0 else 1.0, 0.0]
    up0 = [us0[1] * ce, 0.0, -us0[1] * se]
    up1 = [us0[1] * cr, 0.0, -us0[1] * sr]
    ex.close(u_s, us0, 'returned-s-vector', tol=1e-9)
    ex.close(u_p, up1, 'returned-p-vector(at-receiver)', tol=1e-9)
    a_s = sum(pol[i] * us0[i] for i in range(3))
    a_p = sum(pol[i] * up0[i] for i in range(3))
    want_s = ref_filter(ex, [a_s * x for x in xs], lambda f: table(f) * rs + 0j, n, DT, True)
    want_p = ref_filter(ex, [a_p * x for x in xs], lambda f: table(f) * rp + 0j, n, DT, True)
    if ex.twin == 'no-attenuation':
        want_s = [a_s * x * rs for x in xs]
    ex.close(s_s.values, want_s, 'spectrum-times-attenuation-times-fresnel:s', tol=1e-9)
    ex.close(s_p.values, want_p, 'spectrum-times-attenuation-times-fresnel:p', tol=1e-9)
    ex.close(sig.values, xs, 'input-untouched', tol=0.0)
    # linearity in the signal and in the polarization follows from the reference form (the
    # reference is bilinear in (x, pol)); checked once explicitly:
    ys = ex.reals('y', n, -1, 1)
    a = ex.real('a', -2, 2)
    sig2 = Signal(ex.array(times), ex.array([a * x + y for x, y in zip(xs, ys)]), value_type='field')
    sigy = Signal(ex.array(times), ex.array(ys), value_type='field')
    (c_s, c_p), _ = path.propagate(signal=sig2, polarization=ex.array(pol), **kw)
    (y_s, y_p), _ = path.propagate(signal=sigy, polarization=ex.array(pol), **kw)
    ex.close(c_s.values, [a * u + v for u, v in zip(s_s.values, y_s.values)], 'linear-in-signal',
             tol=1e-9)


def h_frame(ex):
    """the two returned polarization vectors are unit, mutually orthogonal and perpendicular
    to the received direction (the first also to the emitted one); the s/p amplitudes never
    exceed |p|."""
    import pyrex.ray_tracing as rt
    cls = rt.BasicRayTracePath if ex.case['cls'] == 'basic' else rt.UniformRayTracePath
    axis = ex.case.get('plane', 'xz')
    fixed = ex.case.get('theta')
    a = fixed if fixed is not None else ex.real('a', 0.05, math.pi - 0.05)
    b = ex.real('b', 0.05, math.pi - 0.05)
    p = cls.__new__(cls)
    d = p.__dict__
    d['_static_attrs'] = []
    sa, ca = (np.sin(a), np.cos(a)) if fixed is None else (math.sin(a), math.cos(a))
    if fixed == 0.0:
        sa, ca = 0.0, 1.0
    sb, cb = np.sin(b), np.cos(b)
    if axis == 'xz':
        em, rc = [sa, 0.0 * sa, ca], [sb, 0.0 * sb, cb]
    else:
        em, rc = [0.0 * sa, sa, ca], [0.0 * sb, sb, cb]
    d['_lazy_emitted_direction'] = ex.array(em)
    d['_lazy_received_direction'] = ex.array(rc)
    u_s, u_p = p.propagate(polarization=ex.const_array([0.3, -0.5, 0.8]))
    dot = lambda u, v: sum(u[i] * v[i] for i in range(3))
    one = 1.0 if ex.twin != 'half' else 0.5
    ex.close(dot(u_s, u_s), one, 'u_s-unit', tol=1e-9)
    ex.close(dot(u_p, u_p), 1.0, 'u_p-unit', tol=1e-9)
    ex.close(dot(u_s, u_p), 0.0, 'u_s-perpendicular-u_p', tol=1e-9)
    ex.close(dot(u_p, rc), 0.0, 'u_p-perpendicular-received', tol=1e-9)
    ex.close(dot(u_s, rc), 0.0, 'u_s-perpendicular-received', tol=1e-9)
    ex.close(dot(u_s, em), 0.0, 'u_s-perpendicular-emitted', tol=1e-9)


def h_fresnel(ex):
    """Fresnel coefficients at a reflection off the ice boundary have magnitude <= 1 (real
    branch) and exactly 1 under total internal reflection; a path without reflection has
    (1, 1)."""
    import pyrex.ray_tracing as rt
    from pyrex.ice_model import UniformIce
    n1 = ex.real('n1', 1.05, 2.0)
    n2 = ex.real('n2', 1.0, 2.0)
    up = ex.case['up']
    ice = UniformIce(n1, valid_range=(-8.0, 0.0), index_above=n2 if up else 1.0,
                     index_below=1.0 if up else n2)

    class T(rt.UniformRayTracer):
        max_reflections = 1
    bx = ex.real('bx', 0.1, 400.0)
    tr = T(ex.array([0.0, 0.0, -3.0]), ex.array([bx, 0.0, -5.0]), ice)
    sols = tr.solutions
    ex.close(list(sols[0].fresnel), [1.0, 1.0], 'direct-path-has-unit-coefficients', tol=0.0)
    p = sols[1] if up else sols[2]
    r_s, r_p = p.fresnel
    for nm, r in (('s', r_s), ('p', r_p)):
        if isinstance(r, (P.SymComplex, complex)):
            mag2 = P.cabs2(r) if ex.sym else abs(r) ** 2
            ex.equal(mag2, 1.0 if ex.twin != 'tir-half' else 0.5, 'total-internal-reflection:|r|=1:'
                     + nm)
            ex.note('tir')
        else:
            ex.le(r, 1.0, 'real-branch:r<=1:' + nm, tol=1e-9)
            ex.le(-1.0, r, 'real-branch:r>=-1:' + nm, tol=1e-9)
            ex.note('real')


def h_fresnel_basic(ex):
    """graded-index path reflecting off the surface: coefficient magnitudes <= 1, exactly 1
    under total internal reflection; (1, 1) for direct paths and paths turning below the
    surface."""
    import pyrex.ray_tracing as rt
    from pyrex.ice_model import AntarcticIce
    ice = AntarcticIce()
    n2 = ex.real('n_above', 1.0, 1.6)
    ice.index_above = n2
    z0 = ex.case.get('z0', -150.0)
    t0 = ex.real('theta0', 0.02, math.pi / 2 - 0.02)
    direct = ex.boolean('direct')
    p = rt.BasicRayTracePath.__new__(rt.BasicRayTracePath)
    d = p.__dict__
    d['from_point'] = ex.array([0.0, 0.0, z0])
    d['to_point'] = ex.array([100.0, 0.0, -80.0])
    d['ice'] = ice
    d['dz'] = 1.0
    d['direct'] = direct
    d['theta0'] = t0
    d['_static_attrs'] = ['from_point', 'to_point', 'theta0', 'ice', 'dz', 'direct']
    n0 = float(ice.index(z0))
    ns = float(ice.index(0.0))
    beta = n0 * np.sin(t0)
    ex.assume(P.sb_or(beta <= ns - 1e-3, beta >= ns + 1e-3) if ex.sym else abs(beta - ns) >= 1e-3)
    r_s, r_p = p.fresnel
    reaches = (beta < ns)
    if direct or not reaches:
        ex.close([r_s, r_p], [1.0, 1.0], 'no-surface-reflection-has-unit-coefficients', tol=0.0)
        ex.note('unit')
        return
    for nm, r in (('s', r_s), ('p', r_p)):
        if isinstance(r, (P.SymComplex, complex)):
            mag2 = P.cabs2(r) if ex.sym else abs(r) ** 2
            ex.equal(mag2, 1.0 if ex.twin != 'tir-half' else 0.5,
                     'total-internal-reflection:|r|=1:' + nm)
            ex.note('tir')
        else:
            ex.le(r, 1.0, 'real-branch:r<=1:' + nm, tol=1e-9)
            ex.le(-1.0, r, 'real-branch:r>=-1:' + nm, tol=1e-9)
            ex.note('real')


def h_attenuation(ex):
    """the uniform path's attenuation exp(-sum dp / L(z_i,|f|)) lies in (0,1], does not grow
    with |f| whenever the attenuation length does not grow with f (decided per shipped ice
    model in C16), and is even in f - for an ARBITRARY positive attenuation length."""
    import pyrex.ray_tracing as rt
    from pyrex.ice_model import UniformIce
    ice = UniformIce(1.5, valid_range=(-8.0, 0.0))
    bx = ex.case.get('bx', 3.0)
    As = {}

    def attenuation_length(zs, fa):
        # the inverse attenuation length A = 1/L is the uninterpreted function (so the
        # exponent stays linear in the unknowns); L = 1/A is what the path code receives
        rows = []
        for z in np.asarray(zs, dtype=float).ravel():
            A = As.setdefault(float(z), UFun(ex, 'A@%r' % float(z), lo=1e-4, hi=1.0,
                                             concrete=lambda f, z=float(z):
                                             1.0 / (1500.0 - 100 * z - 1e-7 * f)))
            rows.append([1 / A(f) for f in fa])
        return ex.array(rows) if ex.sym else np.array(rows, dtype=float)
    ice.attenuation_length = attenuation_length
    kmax = ex.case.get('kmax', 0)

    class T(rt.UniformRayTracer):
        max_reflections = kmax
    tr = T(ex.const_array([0.0, 0.0, -2.5]), ex.const_array([bx, 0.0, -4.75]), ice)
    p = tr.solutions[ex.case.get('sol', 0)]
    f1 = ex.real('f1', 1e6, 4e9)
    f2 = ex.real('f2', 1e6, 4e9)
    ex.assume(f2 - f1 >= 1e3)         # distinct in float as well
    a1 = p.attenuation(ex.array([f1, f2, -f1]), dz=ex.case.get('dz', 2))
    for z, A in As.items():
        ex.assume(A(f1) <= A(f2))        # L(z, f) does not grow with f
    ex.lt(0.0, a1[0], 'attenuation>0')
    ex.le(a1[0], 1.0, 'attenuation<=1', tol=1e-12)
    ex.le(a1[1], a1[0] if ex.twin != 'growing' else a1[0] - 2.0,
          'attenuation-does-not-grow-with-frequency', tol=1e-9)
    ex.close(a1[2], a1[0], 'attenuation-even-in-f', tol=0.0)


def h_attenuation_graded(ex):
    """graded-index paths (numeric trapezoid integral of BasicRayTracePath, change-of-variable
    integral of SpecializedRayTracePath, direct and turning/reflected) with an ARBITRARY
    positive attenuation length that does not grow with f: attenuation in (0,1], not growing
    with |f|, even in f."""
    import pyrex.ray_tracing as rt
    from pyrex.ice_model import AntarcticIce
    ice = AntarcticIce()
    As = {}

    def attenuation_length(zs, fa):
        rows = []
        for z in np.asarray(zs, dtype=float).ravel():
            A = As.setdefault(float(z), UFun(ex, 'A@%r' % float(z), lo=1e-4, hi=1.0,
                                             concrete=lambda f, z=float(z):
                                             1.0 / (1500.0 - 0.1 * z - 1e-7 * f)))
            rows.append([1 / A(f) for f in np.asarray(fa).ravel()])
        return ex.array(rows) if ex.sym else np.array(rows, dtype=float)
    ice.attenuation_length = attenuation_length
    cls = rt.SpecializedRayTracePath if ex.case['cls'] == 'specialized' else rt.BasicRayTracePath
    p = cls.__new__(cls)
    d = p.__dict__
    z0, z1 = ex.case['z']
    d['from_point'] = np.array([0.0, 0.0, z0])
    d['to_point'] = np.array([100.0, 0.0, z1])
    d['ice'] = ice
    d['dz'] = ex.case.get('dz', 25.0)
    d['direct'] = ex.case['direct']
    d['theta0'] = ex.case['theta0']
    d['_static_attrs'] = ['from_point', 'to_point', 'theta0', 'ice', 'dz', 'direct']
    f1 = ex.real('f1', 1e6, 4e9)
    f2 = ex.real('f2', 1e6, 4e9)
    ex.assume(f2 - f1 >= 1e3)         # distinct in float as well
    a1 = p.attenuation(ex.array([f1, f2, -f1]))
    ex.note('nodes=%d' % len(As))
    for z, A in As.items():
        ex.assume(A(f1) <= A(f2))
    ex.lt(0.0, a1[0], 'attenuation>0')
    ex.le(a1[0], 1.0, 'attenuation<=1', tol=1e-12)
    ex.le(a1[1], a1[0] if ex.twin != 'growing' else a1[0] - 2.0,
          'attenuation-does-not-grow-with-frequency', tol=1e-9)
    ex.close(a1[2], a1[0], 'attenuation-even-in-f', tol=0.0)


KN_VERTICAL = ("for an exactly vertical ray emitted x z = 0, normalize returns the zero vector "
               "and both returned polarization vectors are zero")

HARNESSES = [
    Harness('propagate', h_propagate, _mods, encodes=_enc, twins=('no-attenuation',),
            cases={'quick': [{'cls': 'basic', 'n': 2, 'pol': True, 'interp': None, '_twins': 1},
                             {'cls': 'basic', 'n': 3, 'pol': True, 'interp': 0.5},
                             {'cls': 'basic', 'n': 2, 'pol': False, 'interp': None},
                             {'cls': 'basic', 'n': 3, 'pol': False, 'interp': 0.5},
                             {'cls': 'basic', 'n': 2, 'pol': True, 'interp': 0.1,
                              'polvec': (0.0, 0.0, 0.7)},
                             {'cls': 'basic', 'n': 2, 'pol': True, 'interp': None,
                              'polvec': (0.0, 1.0, 0.0), 'angles': (2.0, 2.4)},
                             {'cls': 'uniform', 'n': 2, 'pol': True},
                             {'cls': 'uniform', 'n': 3, 'pol': False},
                             {'cls': 'basic', 'n': 2, 'pol': True, 'interp': None, 'cfres': True},
                             {'cls': 'uniform', 'n': 3, 'pol': True, 'cfres': True}],
                   'thorough': [{'cls': 'basic', 'n': 2, 'pol': True, 'interp': None, '_twins': 1}]
                   + [{'cls': 'basic', 'n': n, 'pol': pl, 'interp': it, 'angles': an}
                      for n in (2, 3, 4) for pl in (True, False) for it in (None, 0.1, 0.5, 1.0)
                      for an in ((1.1, 0.8), (2.0, 2.4))] +
                   [{'cls': 'uniform', 'n': n, 'pol': pl} for n in (2, 3, 4) for pl in (True, False)]
                   + [{'cls': c, 'n': n, 'pol': True, 'interp': None, 'cfres': True}
                      for c in ('basic', 'uniform') for n in (2, 3, 4)]
                   + [{'cls': 'basic', 'n': 3, 'pol': True, 'interp': 0.5, 'cfres': True}]
                   + [{'cls': c, 'n': 2, 'pol': True, 'interp': None, 'polvec': pv}
                      for c in ('basic', 'uniform') for pv in ((0.0, 0.0, 0.7), (0.0, 1.0, 0.0))]},
            budget={'quick': {'wall_s': 300, 'query_timeout_ms': 60000}}),
    Harness('polarization-frame', h_frame, _mods, encodes=_enc, twins=('half',),
            cases={'quick': [{'cls': 'basic', 'plane': 'xz'}, {'cls': 'uniform', 'plane': 'yz'},
                             {'cls': 'basic', 'plane': 'xz', 'theta': 0.0}],
                   'thorough': [{'cls': c, 'plane': pl} for c in ('basic', 'uniform')
                                for pl in ('xz', 'yz')] +
                   [{'cls': c, 'plane': 'xz', 'theta': 0.0} for c in ('basic', 'uniform')]},
            budget={'quick': {'wall_s': 300, 'query_timeout_ms': 60000}}),
    Harness('fresnel', h_fresnel, _mods, encodes=_enc, twins=('tir-half',),
            cases={'quick': [{'up': True}, {'up': False}], 'thorough': [{'up': True}, {'up': False}]},
            budget={'quick': {'wall_s': 300, 'query_timeout_ms': 60000, 'max_paths': 600}}),
    Harness('fresnel-graded', h_fresnel_basic, _mods, encodes=_enc, twins=('tir-half',),
            cases={'quick': [{'z0': -150.0}], 'thorough': [{'z0': -150.0}, {'z0': -30.0}, {'z0': -900.0}]},
            budget={'quick': {'wall_s': 300, 'query_timeout_ms': 60000, 'max_paths': 600}}),
    Harness('attenuation', h_attenuation, _mods, encodes=_enc, twins=('growing',),
            cases={'quick': [{'bx': 3.0}, {'bx': 3.0, 'kmax': 1, 'sol': 1, 'dz': 4}],
                   'thorough': [{'bx': 3.0}, {'bx': 40.0, 'dz': 1}, {'bx': 3.0, 'kmax': 1, 'sol': 1, 'dz': 4},
                                {'bx': 3.0, 'kmax': 1, 'sol': 1, 'dz': 2}]},
            budget={'quick': {'wall_s': 300, 'query_timeout_ms': 15000, 'light_decide': True}}),
]

_G = [{'cls': c, 'z': z, 'direct': dr, 'theta0': t}
      for c in ('basic', 'specialized')
      for (z, dr, t) in (((-150.0, -60.0), True, 0.9), ((-150.0, -60.0), False, 0.8),
                         ((-60.0, -150.0), True, 2.4))]
HARNESSES.append(
    Harness('attenuation-graded', h_attenuation_graded, _mods, encodes=_enc, twins=('growing',),
            cases={'quick': _G[:4], 'thorough': _G + [dict(g, dz=10.0) for g in _G]},
            budget={'quick': {'wall_s': 300, 'query_timeout_ms': 15000, 'light_decide': True}}))

BOUNDS = {
    'quick': {'signals': '2-3 samples symbolic in [-1,1]', 'attenuation': 'an arbitrary function '
              'of |f| with values in (0,1] (uninterpreted), Fresnel pair symbolic in [-1,1], '
              'time of flight symbolic', 'interpolation': 'None, 0.1, 0.5', 'polarization': 'symbolic '
              'vector, and the two vectors with an exactly vanishing s or p component',
              'directions': 'emitted/received in a coordinate plane with symbolic polar angles '
              '(frame), two concrete angle pairs (propagate)'},
    'thorough': {'signals': '2-4 samples', 'interpolation': 'None, 0.1, 0.5, 1.0'},
}
OUTSIDE = ["the numeric attenuation integral of the graded-index paths (hundreds of depth "
           "nodes) - replaced by an arbitrary function of |f| in (0,1]; its positivity/"
           "monotonicity per ice model is C16", "energy inequality: follows from C05's passive "
           "lemma chain with |attenuation x fresnel| <= 1 (decided here) - not re-proved",
           "layered paths", "azimuths other than the coordinate planes (rotation covariance)"]
ASSUMPTIONS = ["np.interp / np.logspace per documentation",
               "the stand-in attenuation function is insensitive to changes of f below 1e-9 relative"]
