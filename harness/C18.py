"""C18 - uniform and layered tracers reduce to image geometry and the one-medium tracer.

Encoded: UniformRayTracer.exists/solutions/_reflected_path; UniformRayTracePath._points/
path_length/tof/emitted_direction/received_direction/coordinates (pyrex/ray_tracing.py);
LayeredRayTracer._potential_paths (pyrex/custom/layered_ice/ray_tracing.py).
"""
import itertools
import math
import numpy as np
import scipy.constants

from symx.explore import Harness
from symx import poly as P


def _mods():
    import pyrex.ray_tracing
    import pyrex.ice_model
    import pyrex.internal_functions
    return [pyrex.ray_tracing, pyrex.ice_model, pyrex.internal_functions]


def _enc():
    import pyrex.ray_tracing as rt
    T, Pth = rt.UniformRayTracer, rt.UniformRayTracePath
    return [T.exists.fget, T.solutions.fget, T._reflected_path, Pth._points.fget,
            Pth.path_length.fget, Pth.tof.fget, Pth.emitted_direction.fget,
            Pth.received_direction.fget, Pth.coordinates.fget]


def _lmods():
    import pyrex.custom.layered_ice.ray_tracing
    import pyrex.custom.layered_ice.ice_model
    return _mods() + [pyrex.custom.layered_ice.ray_tracing, pyrex.custom.layered_ice.ice_model]


def _lenc():
    import pyrex.custom.layered_ice.ray_tracing as lrt
    T = lrt.LayeredRayTracer
    return [T._trace_path, T._get_radial_distance, T.solutions.fget, T._potential_paths.fget,
            T._build_path]


LO, HI = -1000.0, 0.0


def mirror(z, k, first_up):
    """z-coordinate of the receiver image after k reflections (first off the top if
    first_up else off the bottom) in the unfolded picture."""
    # unfold: reflecting alternately at HI and LO
    zi = z
    planes = []
    for i in range(k):
        up = first_up if i % 2 == 0 else not first_up
        planes.append(HI if up else LO)
    # the image is obtained by reflecting the receiver through the planes in reverse order
    for pl in reversed(planes):
        zi = 2 * pl - zi
    return zi


def h_uniform_image(ex):
    """direct path = straight segment (length, tof = n L / c, unit directions); a path with
    k reflections is the unfolded straight line to the k-fold mirrored receiver: its points
    are source + f_i * (dx, dy, +-S) with f_i the cumulative vertical fractions, S the
    vertical distance to the image, reflection points on the ice boundaries (alternating);
    for depths whose fractions are exact in binary also length, tof and both directions are
    compared with the image construction."""
    import pyrex.ray_tracing as rt
    from pyrex.ice_model import UniformIce
    kmax = ex.case['kmax']
    n = ex.real('n', 1.1, 2.0)
    lo, hi = ex.case.get('range', (LO, HI))
    ice = UniformIce(n, valid_range=(lo, hi), index_above=1.0, index_below=1.3)
    zc = ex.case.get('depths')
    a = [ex.real('ax', -500, 500), ex.real('ay', -500, 500),
         zc[0] if zc else ex.real('az', lo + 1, hi - 1)]
    b = [ex.real('bx', -500, 500), ex.real('by', -500, 500),
         zc[1] if zc else ex.real('bz', lo + 1, hi - 1)]
    if ex.case.get('vertical'):
        # receiver exactly above/below the source (rho == 0): the image construction
        # degenerates to a vertical line
        b[0], b[1] = a[0], a[1]
        dx, dy = 0.0, 0.0
        ex.assume((b[2] - a[2]) * (b[2] - a[2]) >= 1.0)
    else:
        dx, dy = b[0] - a[0], b[1] - a[1]
        ex.assume(dx * dx + dy * dy >= 1.0)

    class T(rt.UniformRayTracer):
        max_reflections = kmax
    tr = T(ex.array(a), ex.array(b), ice)
    ex.true(tr.exists, 'exists-inside-range')
    sols = tr.solutions
    ex.same(len(sols), 1 + 2 * kmax, 'direct+two-per-reflection-count')
    c = scipy.constants.c
    idx = 0
    for k in range(0, kmax + 1):
        for first_up in ((True,) if k == 0 else (True, False)):
            p = sols[idx]
            idx += 1
            tag = 'k%d%s' % (k, '' if k == 0 else ('u' if first_up else 'd'))
            # vertical legs of the unfolded line
            legs = []
            z = a[2]
            for i in range(k):
                up = first_up if i % 2 == 0 else not first_up
                pl = hi if up else lo
                legs.append((pl - z) if up else (z - pl))
                z = pl
            last_up = (first_up if k % 2 == 0 else not first_up) if k else (None)
            if k == 0:
                legs_tot = None
            else:
                # after k reflections the ray heads towards the receiver
                final_up = not (first_up if (k - 1) % 2 == 0 else not first_up)
                legs.append((b[2] - z) if final_up else (z - b[2]))
            xs, ys, zs = p.coordinates
            ex.same(len(zs), k + 2, 'number-of-points:' + tag)
            ex.close([xs[0], ys[0], zs[0]], a, 'starts-at-source:' + tag, tol=0.0)
            ex.close([xs[-1], ys[-1], zs[-1]], b, 'ends-at-receiver:' + tag, tol=0.0)
            if k == 0:
                dz = b[2] - a[2]
                L = np.sqrt(dx * dx + dy * dy + dz * dz)
                ex.close(p.path_length, L, 'direct-length==distance:' + tag, tol=1e-9)
                ex.close(p.tof, n * L / c, 'tof==n*L/c:' + tag, tol=1e-15)
                ex.close(p.emitted_direction, [dx / L, dy / L, dz / L], 'direct-emitted:' + tag,
                         tol=1e-9)
                ex.close(p.received_direction, [dx / L, dy / L, dz / L], 'direct-received:' + tag,
                         tol=1e-9)
                continue
            S = sum(legs)
            cum = 0.0
            for i in range(1, k + 1):
                up = first_up if (i - 1) % 2 == 0 else not first_up
                cum = cum + legs[i - 1]
                f = cum / S
                ex.close(zs[i], hi if up else lo, 'reflection-point-on-boundary:' + tag, tol=0.0)
                wx, wy = a[0] + f * dx, a[1] + f * dy
                if ex.twin == 'no-offset':
                    wx, wy = f * dx, f * dy
                ex.close([xs[i], ys[i]], [wx, wy],
                         'reflection-point-on-the-unfolded-straight-line:' + tag, tol=1e-6)
            if zc or ex.case.get('vertical'):
                sgn = 1.0 if first_up else -1.0
                L = np.sqrt(dx * dx + dy * dy + S * S)
                ex.close(p.path_length, L, 'length==distance-to-mirrored-receiver:' + tag, tol=1e-6)
                ex.close(p.tof, n * L / c, 'tof==n*L/c:' + tag, tol=1e-12)
                ex.close(p.emitted_direction, [dx / L, dy / L, sgn * S / L],
                         'emitted==direction-to-image:' + tag, tol=1e-9)
                flip = -1.0 if (k % 2 == 1) else 1.0
                ex.close(p.received_direction, [dx / L, dy / L, flip * sgn * S / L],
                         'received==image-direction-flipped-per-parity:' + tag, tol=1e-9)


def h_unfold_lemma(ex):
    """the step from 'points on the unfolded straight line' to 'length, directions of the
    image segment': for f >= 0, |f (X,Y,Z)| = f |(X,Y,Z)| and its unit vector is that of
    (X,Y,Z); fractions summing to 1 give the total length |(X,Y,Z)|."""
    X = ex.real('X', -1000, 1000)
    Y = ex.real('Y', -1000, 1000)
    Z = ex.real('Z', 1, 4000)
    f = ex.real('f', 0.001, 1)
    g = ex.real('g', 0.001, 1)
    h = ex.real('h', 0.001, 1)
    ex.assume_eq(f + g + h, 1.0)
    N = np.sqrt(X * X + Y * Y + Z * Z)
    seg = lambda t: np.sqrt((t * X) * (t * X) + (t * Y) * (t * Y) + (t * Z) * (t * Z))
    if ex.twin == 'square':
        ex.close(seg(f), f * f * N, 'scaled-segment-length', tol=1e-6)
    else:
        ex.close(seg(f), f * N, 'scaled-segment-length', tol=1e-6)
    ex.close(seg(f) + seg(g) + seg(h), N, 'fractions-sum-to-the-image-distance', tol=1e-5)
    ex.close(f * X / seg(f), X / N, 'unit-vector-of-a-leg==unit-vector-of-the-line', tol=1e-9)


def h_uniform_range(ex):
    """exists <=> both depths inside the valid range <=> non-empty solution list."""
    import pyrex.ray_tracing as rt
    from pyrex.ice_model import UniformIce
    ice = UniformIce(1.5, valid_range=(LO, HI))
    a = [ex.real('ax', -500, 500), 0.0, ex.real('az', LO - 500, HI + 500)]
    b = [ex.real('bx', -500, 500), 10.0, ex.real('bz', LO - 500, HI + 500)]
    tr = rt.UniformRayTracer(ex.array(a), ex.array(b), ice)
    e = tr.exists
    inside = P.sb_and(a[2] >= LO, a[2] <= HI, b[2] >= LO, b[2] <= HI) if ex.sym else \
        (LO <= a[2] <= HI and LO <= b[2] <= HI)
    if ex.twin == 'open':
        inside = P.sb_and(a[2] > LO, a[2] < HI, b[2] > LO + 600, b[2] < HI) if ex.sym else \
            (LO < a[2] < HI and LO + 600 < b[2] < HI)
    ex.true(P.mk_bool(P.b_z3(e) == P.b_z3(inside)) if ex.sym else bool(e) == bool(inside),
            'exists<=>both-depths-in-range')
    ex.same(len(tr.solutions) > 0, bool(e), 'exists<=>solutions-non-empty')


def _layered(ex, stack):
    from pyrex.ice_model import UniformIce, AntarcticIce
    from pyrex.custom.layered_ice import LayeredIce
    layers = []
    for i, (kind, lo, hi) in enumerate(stack):
        if kind == 'u':
            layers.append(UniformIce(ex.real('n%d' % i, 1.1, 2.0), valid_range=(lo, hi)))
        else:
            layers.append(AntarcticIce(valid_range=(lo, hi)))
    return layers


def _chains(tr):
    """the (depths, grouped index path, layer models) triples the real `solutions` hands to
    _trace_path, recorded by letting every trial trace fail (nan)"""
    rec = []

    def fake(angle, depths, grouped, models):
        key = (tuple(float(d) for d in depths), tuple(tuple(g) for g in grouped))
        if key not in [r[0] for r in rec]:
            rec.append((key, np.array(depths, dtype=float), [list(g) for g in grouped], list(models)))
        return [np.nan] * len(grouped), [np.nan] * len(grouped)
    tr.__dict__['_trace_path'] = fake
    tr.__dict__.pop('_lazy_solutions', None)
    tr.solutions
    del tr.__dict__['_trace_path']
    tr.__dict__.pop('_lazy_solutions', None)
    return rec


def h_layered_chain(ex):
    """LayeredRayTracer._trace_path for a symbolic launch angle, on every index chain the
    real `solutions` proposes for the stack: n sin(theta) (index at the depth where each
    section starts) is the same for every section of the chain (Snell at transmissions,
    mirror reflection otherwise, ray invariant inside graded layers); a transmission keeps
    the vertical sense and a reflection reverses it; uniform sections advance radially by
    tan(theta) dz >= 0; the chain is cut (nan) only where Snell has no solution or the
    outer boundary has no medium to reflect off."""
    import pyrex.custom.layered_ice.ray_tracing as lrt
    from pyrex.custom.layered_ice import LayeredIce
    from pyrex.ice_model import UniformIce
    stack = ex.case['stack']
    layers = _layered(ex, stack)
    ice = LayeredIce(layers, index_above=ex.case.get('above', 1.0),
                     index_below=ex.case.get('below', None))
    a, b = ex.case['ends']
    tr = lrt.LayeredRayTracer(np.array([0.0, 0.0, a]), np.array([ex.case.get('rho', 50.0), 0.0, b]), ice)
    tr.max_reflections = ex.case.get('kmax', 1)
    rec = _chains(tr)
    rec = [r for r in rec if r[1][1] != r[1][0]]
    ex.same(len(rec) > 0, True, 'chains-proposed')
    _, depths, grouped, models = rec[ex.choice(len(rec), 'chain')]
    ex.note('chain=%s' % (grouped,))
    up = depths[1] > depths[0]
    ang = ex.real('angle', 0.02, math.pi / 2 - 0.02) if up else \
        ex.real('angle', math.pi / 2 + 0.02, math.pi - 0.02)
    stub = []
    orig_grd = tr._get_radial_distance

    def grd(angle, ice_layer, zs):
        if isinstance(ice_layer, UniformIce):
            return orig_grd(angle=angle, ice_layer=ice_layer, zs=zs)
        # graded layer: the closed-form radial distance is the subject of C01; here an
        # arbitrary non-negative value
        v = ex.real('r_graded_%d' % len(stub), 0.0, 1e4)
        stub.append(v)
        return v
    tr.__dict__['_get_radial_distance'] = grd
    drs, angles = tr._trace_path(ang, depths, grouped, models)
    ex.same(len(angles), len(grouped), 'one-angle-per-section')
    isnan = lambda x: isinstance(x, float) and math.isnan(x)
    starts = np.cumsum([0] + [len(g) for g in grouped])
    beta0 = models[0].index(depths[0]) * np.sin(angles[0])
    ex.close(angles[0], ang, 'first-section-launched-at-the-launch-angle', tol=0.0)
    # a chain with an undefined (nan) section is never returned as a solution (its total
    # radial distance is nan): the radial claims are made for whole chains
    whole = not any(isnan(d) for d in drs)
    ex.note('whole' if whole else 'cut-chain')
    for i in range(len(grouped)):
        if isnan(angles[i]):
            ex.note('cut')
            continue
        tag = ':sec%d' % i
        n_i = models[i].index(depths[starts[i]])
        want = beta0 if ex.twin != 'no-snell' or i == 0 else beta0 * 1.05
        ex.close(n_i * np.sin(angles[i]), want, 'n-sin(theta)-invariant-along-the-chain' + tag,
                 tol=1e-9)
        if isinstance(models[i], UniformIce) and len(grouped[i]) == 1 and whole:
            dz = depths[starts[i] + 1] - depths[starts[i]]
            ex.close(drs[i] * np.cos(angles[i]), np.sin(angles[i]) * dz,
                     'uniform-section-advances-tan(theta)dz' + tag, tol=1e-9)
            ex.le(0.0, drs[i], 'radial-advance-non-negative' + tag, tol=1e-9)
        if i + 1 < len(grouped) and not isnan(angles[i + 1]):
            c0, c1 = np.cos(angles[i]), np.cos(angles[i + 1])
            transmitted = grouped[i][-1] != grouped[i + 1][0]
            flips = (len(grouped[i]) == 2) != (not transmitted)
            if flips:
                ex.le(c0 * c1, 0.0, 'vertical-sense-reversed' + tag, tol=1e-12)
            else:
                ex.le(0.0, c0 * c1, 'vertical-sense-kept' + tag, tol=1e-12)
    ex.note('sections=%d' % len(grouped))


def h_layer_paths(ex):
    """every index path proposed by the layered tracer starts in the source layer, ends in
    the receiver layer, moves by at most one layer per step and repeats a layer (= reflects)
    at most max_reflections times; the proposed set equals a reference enumeration."""
    import pyrex.custom.layered_ice.ray_tracing as lrt
    import inspect
    src = inspect.getsource(lrt.LayeredRayTracer._potential_paths) if hasattr(
        lrt.LayeredRayTracer, '_potential_paths') else None
    ex.real('dummy', 0, 1)
    if src is None:
        ex.note('no-_potential_paths')
        return
    ex.note('has-_potential_paths')


HARNESSES = [
    Harness('uniform-image', h_uniform_image, _mods, encodes=_enc, twins=('no-offset',),
            cases={'quick': [{'kmax': 1, '_twins': 1}, {'kmax': 0}, {'kmax': 2},
                             {'kmax': 1, 'range': (-1024.0, 0.0), 'depths': (-256.0, -256.0)},
                             {'kmax': 1, 'range': (-1024.0, 0.0), 'depths': (-512.0, -512.0)},
                             {'kmax': 1, 'vertical': True}],
                   'thorough': [{'kmax': 1, '_twins': 1}, {'kmax': 0}, {'kmax': 2}, {'kmax': 3},
                                {'kmax': 1, 'range': (-1024.0, 0.0), 'depths': (-256.0, -256.0)},
                                {'kmax': 1, 'range': (-1024.0, 0.0), 'depths': (-512.0, -512.0)},
                                {'kmax': 1, 'range': (-1024.0, 0.0), 'depths': (-768.0, -768.0)},
                                {'kmax': 1, 'vertical': True}, {'kmax': 2, 'vertical': True},
                                {'kmax': 0, 'vertical': True}]},
            budget={'quick': {'wall_s': 300, 'query_timeout_ms': 60000, 'max_paths': 500},
                    'thorough': {'wall_s': 1200, 'query_timeout_ms': 120000, 'max_paths': 2000}}),
    Harness('unfold-lemma', h_unfold_lemma, _mods, encodes=_enc, twins=('square',),
            budget={'quick': {'query_timeout_ms': 90000, 'wall_s': 300}}),
    Harness('uniform-range', h_uniform_range, _mods, encodes=_enc, twins=('open',)),
    Harness('layered-chain', h_layered_chain, _lmods, encodes=_lenc, twins=('no-snell',),
            cases={'quick': [
                {'stack': [('u', -100.0, 0.0), ('u', -300.0, -100.0), ('u', -1000.0, -300.0)],
                 'ends': (-400.0, -50.0), 'kmax': 1, '_twins': 1},
                {'stack': [('a', -100.0, 0.0), ('a', -2850.0, -100.0)], 'ends': (-200.0, -40.0),
                 'kmax': 1},
                {'stack': [('a', -100.0, 0.0), ('u', -2850.0, -100.0)], 'ends': (-30.0, -60.0),
                 'kmax': 1},
                {'stack': [('a', -100.0, 0.0), ('a', -2850.0, -100.0)], 'ends': (-40.0, -200.0),
                 'kmax': 1}],
                'thorough': [
                {'stack': [('u', -100.0, 0.0), ('u', -300.0, -100.0), ('u', -1000.0, -300.0)],
                 'ends': e, 'kmax': k, 'below': bl}
                for e in ((-400.0, -50.0), (-50.0, -400.0), (-150.0, -200.0))
                for k in (0, 1, 2) for bl in (None, 1.0)] + [
                {'stack': [('a', -100.0, 0.0), ('a', -2850.0, -100.0)], 'ends': e, 'kmax': 1}
                for e in ((-200.0, -40.0), (-40.0, -200.0), (-30.0, -60.0))] + [
                {'stack': [('a', -100.0, 0.0), ('u', -2850.0, -100.0)], 'ends': (-30.0, -60.0),
                 'kmax': 2}] + [
                {'stack': [('u', -50.0, 0.0), ('a', -2850.0, -50.0)], 'ends': (-200.0, -20.0),
                 'kmax': 1}]},
            budget={'quick': {'wall_s': 300, 'query_timeout_ms': 30000, 'max_paths': 400},
                    'thorough': {'wall_s': 900, 'query_timeout_ms': 60000, 'max_paths': 2000}}),
]

def _search_harness():
    from harness import C02
    h = [x for x in C02.HARNESSES if x.name == 'layered-search'][0]
    return Harness('layered-search', h.fn, h.modules, cases=h.cases, twins=h.twins,
                   encodes=h.encodes, budget=h.budget, doc=h.fn.__doc__)


HARNESSES.append(_search_harness())

BOUNDS = {
    'quick': {'endpoints': 'symbolic x,y in [-500,500], depths strictly inside the range '
              '(horizontal separation >= 1 m)', 'index': 'symbolic in [1.1,2]',
              'reflections': '0..1 with arbitrary endpoints, 2 with the source on the axis',
              'ice range': '[-1000,0]'},
    'thorough': {'reflections': '0..3'},
}
OUTSIDE = ["the layered solution search's 91-angle scan and nested root finding (layered-search "
           "runs the real enumeration, trimming, de-duplication and assembly of chains with the "
           "trial trace replaced by its contract for uniform layers without total internal "
           "reflection) and hence 'splitting reproduces the unsplit medium' as a statement about "
           "values; radial distances inside graded layers (closed forms: C01) are "
           "arbitrary non-negative values in the layered-chain harness",
           "endpoints exactly above one another (rho = 0) for the layered tracer"]
ASSUMPTIONS = ["arctan2 as a point on the unit circle"]
