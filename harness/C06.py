"""C06 - lazily evaluated signals and ray objects never serve stale values.

Encoded: lazy_property, LazyMutableClass.__init__/__setattr__/_clear_cache
(pyrex/internal_functions.py); FunctionSignal.values/_full_times/_value_window/
_apply_filters/shift/set_buffers/filter_frequencies/resample/with_times/copy/__add__/
__mul__/__imul__/__itruediv__ (pyrex/signals.py); lazy properties of the ray tracer and
path classes (pyrex/ray_tracing.py).
"""
import cmath
import math
import numpy as np

from symx.explore import Harness
from symx import poly as P
from harness.common import UFun


def _mods():
    import pyrex.signals
    import pyrex.internal_functions
    return [pyrex.signals, pyrex.internal_functions]


def _enc():
    from pyrex.signals import FunctionSignal as F
    from pyrex.internal_functions import lazy_property, LazyMutableClass as L
    return [lazy_property, L.__init__, L.__setattr__, L._clear_cache, F.values.fget,
            F._full_times, F._value_window, F._apply_filters, F.shift, F.set_buffers,
            F.filter_frequencies, F.resample, F.with_times, F.copy, F.__add__, F.__mul__,
            F.__imul__, F.__itruediv__]


class FreqResponse:
    """A response keyed by frequency value: one free complex number per distinct |f| or f."""

    def __init__(self, ex, tag):
        self.ex = ex
        self.tag = tag
        self.vals = {}
        self.__name__ = 'resp_' + tag

    def _val(self, f):
        key = round(float(f) * 1e6)
        if key not in self.vals:
            nm = '%s_%s%d' % (self.tag, 'm' if key < 0 else 'p', abs(key))
            self.vals[key] = (self.ex.real(nm + '_re', -2, 2), self.ex.real(nm + '_im', -2, 2))
        re, im = self.vals[key]
        return P.cmk(re, im) if self.ex.sym else complex(re, im)

    def __call__(self, f):
        if np.ndim(f) > 0:
            out = [self._val(x) for x in f]
            return self.ex.array(out) if self.ex.sym else np.array(out, dtype=complex)
        return self._val(f)

    def __deepcopy__(self, memo):
        return self


def _ceil_div(b, dt):
    n = int(b / dt)
    if b % dt:
        n += 1
    return n


def eager(ex, sig):
    """The property's definition, evaluated by the harness from the defining attributes:
    sum over components of factor*function on the buffer-extended grid, passed once through
    the product of that component's filters, cropped to the signal's own times."""
    times = list(sig.times)
    n = len(times)
    dt = times[1] - times[0]
    total = [0.0] * n
    for i in range(len(sig._functions)):
        lead, trail = sig._buffers[i]
        nb = _ceil_div(lead, dt)
        na = _ceil_div(trail, dt)
        full = [times[0] - (nb - j) * dt for j in range(nb)] + times + \
               [times[-1] + (j + 1) * dt for j in range(na)]
        g = sig._functions[i]
        vals = [sig._factors[i] * g(t - sig._t0s[i]) for t in full]
        filt = sig._filters[i]
        if len(filt):
            m = len(vals)
            nn = 2 * m
            freqs = [(k if k < (nn + 1) // 2 else k - nn) / (nn * dt) for k in range(nn)]
            H = []
            for f in freqs:
                h = 1.0
                for (resp, force_real) in filt:
                    if force_real:
                        r = resp(abs(f))
                        if f < 0:
                            r = r.conjugate()
                    else:
                        r = resp(f)
                    h = h * r
                H.append(h)
            pad = vals + [0.0] * m
            X = [sum((pad[j] * cmath.exp(-2j * math.pi * ((k * j) % nn) / nn)
                      for j in range(nn)), 0.0) for k in range(nn)]
            y = [sum((H[k] * X[k] * cmath.exp(2j * math.pi * ((k * j) % nn) / nn)
                      for k in range(nn)), 0.0) / nn for j in range(m)]
            vals = [v.real if not isinstance(v, (int, float)) else v for v in y]
        for j in range(n):
            total[j] = total[j] + vals[nb + j]
    return total


OPS = ['read', 'shift', 'imul', 'idiv', 'filter', 'filter_real', 'setbuf', 'setbuf_force',
       'with_times_sub', 'add', 'copy', 'times_iadd', 'resample_same', 'with_times_super',
       'spawn_with_times_sub', 'spawn_copy_setbuf', 'spawn_mul_filter', 'spawn_add_shift']


def apply_op(ex, sig, op, step, state):
    """Apply one public operation; returns the signal to continue with."""
    from pyrex.signals import FunctionSignal
    if op == 'read':
        _ = sig.values
    elif op == 'shift':
        sig.shift(ex.real('d%d' % step, -50, 50))
    elif op == 'imul':
        sig *= ex.real('k%d' % step, -3, 3)
    elif op == 'idiv':
        k = ex.real('q%d' % step, 0.5, 3)
        sig /= k
    elif op == 'filter':
        sig.filter_frequencies(FreqResponse(ex, 'H%d' % step), force_real=False)
    elif op == 'filter_real':
        sig.filter_frequencies(FreqResponse(ex, 'R%d' % step), force_real=True)
    elif op == 'setbuf':
        sig.set_buffers(leading=1.5, trailing=1.0)
    elif op == 'setbuf_force':
        sig.set_buffers(leading=0.0, trailing=2.0, force=True)
    elif op == 'with_times_sub':
        if len(sig.times) >= 3:
            sig = sig.with_times(sig.times[1:])
    elif op == 'with_times_super':
        t = list(sig.times)
        dt = t[1] - t[0]
        new = [t[0] - dt] + t + [t[-1] + dt]
        sig = sig.with_times(ex.array(new))
    elif op == 'add':
        h = UFun(ex, 'h%d' % step, concrete=lambda t: math.cos(0.7 * t) - 0.1 * t)
        other = FunctionSignal(sig.times, h, value_type=sig.value_type)
        other.shift(0.0)
        sig = sig + other
    elif op == 'copy':
        sig = sig.copy()
    elif op == 'times_iadd':
        sig.times += 2.0
    elif op == 'resample_same':
        sig.resample(len(sig.times))
    # "spawn" operations derive a new object, mutate *it*, and continue with the source:
    # the source must not be affected (no shared internals, no stale cache)
    elif op == 'spawn_with_times_sub':
        if len(sig.times) >= 3:
            d = sig.with_times(sig.times[1:])
            _ = d.values
    elif op == 'spawn_copy_setbuf':
        d = sig.copy()
        d.set_buffers(leading=2.0, trailing=1.0, force=True)
    elif op == 'spawn_mul_filter':
        d = sig * 2.0
        d.filter_frequencies(FreqResponse(ex, 'S%d' % step), force_real=True)
    elif op == 'spawn_add_shift':
        h = UFun(ex, 'h%d' % step, concrete=lambda t: math.cos(0.7 * t) - 0.1 * t)
        d = sig + FunctionSignal(sig.times, h, value_type=sig.value_type)
        d.shift(3.0)
        d.set_buffers(leading=1.0)
    return sig


def h_sequences(ex):
    """after every step of every operation sequence: values == eager(definition) and
    == values of a freshly constructed object with the same defining attributes."""
    from pyrex.signals import FunctionSignal
    n = ex.case['n']
    seq = ex.case['seq']
    t0 = ex.real('t0', -100, 100)
    times = ex.array([t0 + i * 1.0 for i in range(n)])
    g = UFun(ex, 'g')
    sig = FunctionSignal(times, g, value_type='voltage')
    state = {}
    for step, op in enumerate(seq):
        sig = apply_op(ex, sig, op, step, state)
        got = sig.values
        want = eager(ex, sig)
        if ex.twin == 'no-filter' and any(len(f) for f in sig._filters):
            save = sig._filters
            sig.__dict__['_filters'] = [[] for _ in save]
            want = eager(ex, sig)
            sig.__dict__['_filters'] = save
        ex.close(got, want, 'values==eager-definition', tol=1e-9)
        fresh = FunctionSignal(sig.times, None, sig.value_type)
        fresh._functions = list(sig._functions)
        fresh._t0s = list(sig._t0s)
        fresh._buffers = [list(b) for b in sig._buffers]
        fresh._factors = list(sig._factors)
        fresh._filters = [list(f) for f in sig._filters]
        ex.close(got, fresh.values, 'values==fresh-object', tol=1e-9)
        ex.same(len(got), len(sig.times), 'one-value-per-sample')


def _seqs(k, ops):
    import itertools
    return [list(s) for s in itertools.product(ops, repeat=k)]


def _interesting(seq):
    """A sequence can expose staleness only if some read precedes a mutation; every step
    is followed by a read in the harness, so all sequences qualify; drop pure-read ones."""
    return any(o != 'read' for o in seq)


Q_OPS = ['shift', 'imul', 'filter_real', 'setbuf', 'with_times_sub', 'add', 'times_iadd',
         'spawn_with_times_sub', 'spawn_copy_setbuf']
T_OPS = [o for o in OPS if o != 'read']


def _cases(tier):
    out = [{'n': 3, 'seq': ['filter_real', 'imul'], '_twins': 1}]
    if tier == 'quick':
        for s in _seqs(1, T_OPS):
            out.append({'n': 3, 'seq': s})
        for s in _seqs(2, Q_OPS):
            out.append({'n': 3, 'seq': s})
        out.append({'n': 4, 'seq': ['filter', 'setbuf', 'shift']})
        out.append({'n': 2, 'seq': ['filter_real', 'setbuf_force', 'imul']})
    else:
        for s in _seqs(2, T_OPS):
            out.append({'n': 3, 'seq': s})
        for s in _seqs(3, Q_OPS):
            out.append({'n': 3, 'seq': s})
        for s in _seqs(2, Q_OPS):
            out.append({'n': 4, 'seq': s})
            out.append({'n': 2, 'seq': s})
    return out


# ---------------------------------------------------------------------------------
# subclasses: the base-class result transfers iff they override none of the mutators

def h_subclasses(ex):
    """Askaryan / thermal-noise subclasses override none of the mutating operations or the
    lazy `values`, so the FunctionSignal result transfers to them."""
    from pyrex.signals import FunctionSignal, FullThermalNoise, FFTThermalNoise
    import pyrex.askaryan as ask
    muts = ['values', '_full_times', '_value_window', '_apply_filters', 'shift',
            'set_buffers', 'filter_frequencies', 'resample', 'with_times', 'copy', '__add__',
            '__mul__', '__rmul__', '__imul__', '__truediv__', '__itruediv__', '__setattr__',
            '_clear_cache']
    for cls in (FullThermalNoise, FFTThermalNoise, ask.ZHSAskaryanSignal, ask.AVZAskaryanSignal,
                ask.ARZAskaryanSignal):
        for m in muts:
            ex.same(m in cls.__dict__, False, 'subclass-does-not-override:%s.%s' % (
                cls.__name__, m))
    ex.real('dummy', 0, 1)


def h_noise_attrs(ex):
    """thermal-noise subclasses: reading values, assigning a new basis (amps / phases / rms)
    and reading again gives what a fresh object with that basis gives."""
    import pyrex.signals as sg
    from harness.common import patched_random
    from harness.C17 import amp_fun
    n, band, cls_name, attr = ex.case['n'], ex.case['band'], ex.case['cls'], ex.case['attr']
    cls = sg.FFTThermalNoise if cls_name == 'fft' else sg.FullThermalNoise
    with patched_random(ex, sg, angle=True) as rnd:
        times = ex.const_array([1.0 * i for i in range(n)])
        A_ = cls(times, f_band=band, f_amplitude=amp_fun(ex, 'a'), rms_voltage=2.0)
        B_ = cls(times, f_band=band, f_amplitude=amp_fun(ex, 'b'), rms_voltage=3.0)
        vb = list(B_.values)
        _ = list(A_.values)
        if attr == 'amps':
            A_.amps = B_.amps
            A_.phases = B_.phases
            A_.rms = B_.rms
            want = vb
        else:
            A_.rms = 4.0
            want = [2.0 * v for v in list(_)]
        if ex.twin == 'stale':
            want = list(_)
        ex.close(A_.values, want, 'noise-values-follow-the-assigned-basis', tol=1e-9)


# ---------------------------------------------------------------------------------
# ray tracers / paths: assignment of a defining attribute invalidates derived quantities

def _rt_mods():
    import pyrex.ray_tracing
    import pyrex.ice_model
    import pyrex.internal_functions
    return [pyrex.ray_tracing, pyrex.ice_model, pyrex.internal_functions]


def _rt_enc():
    import pyrex.ray_tracing as rt
    out = []
    for cls in (rt.BasicRayTracer, rt.SpecializedRayTracer, rt.UniformRayTracer):
        for nm in ('z0', 'z1', 'n0', 'rho', 'max_angle', 'exists'):
            if nm in cls.__dict__ or any(nm in b.__dict__ for b in cls.__mro__):
                for b in cls.__mro__:
                    if nm in b.__dict__:
                        out.append(b.__dict__[nm])
                        break
    return out


def h_tracer_attrs(ex):
    """read derived quantities, change a defining attribute (assignment or augmented
    assignment), read again: equal to a freshly constructed object's."""
    import pyrex.ray_tracing as rt
    from pyrex.ice_model import AntarcticIce, UniformIce
    kind = ex.case['kind']
    how = ex.case['how']
    # horizontal coordinates symbolic, depths concrete (the ice-model branches on depth
    # are C16's subject; here only the cache invalidation matters)
    za, zb, zc = ex.case.get('z', (-300.0, -120.5, -900.0))
    p1 = [ex.real('ax', -500, 500), ex.real('ay', -500, 500), za]
    p2 = [ex.real('bx', -500, 500), ex.real('by', -500, 500), zb]
    p3 = [ex.real('cx', -500, 500), ex.real('cy', -500, 500), zc]
    if kind == 'uniform':
        ice = UniformIce(1.5)
        mk = lambda a, b: rt.UniformRayTracer(a, b, ice_model=ice)
        names = ['exists']
    else:
        ice = AntarcticIce()
        cls = rt.SpecializedRayTracer if kind == 'specialized' else rt.BasicRayTracer
        mk = lambda a, b: cls(a, b, ice_model=ice)
        names = ['z0', 'z1', 'n0', 'rho', 'max_angle']
    tr = mk(ex.array(p1), ex.array(p2))
    first = [getattr(tr, nm) for nm in names]
    if how == 'assign_to':
        tr.to_point = ex.array(p3)
        fresh = mk(ex.array(p1), ex.array(p3))
    elif how == 'assign_from':
        tr.from_point = ex.array(p3)
        fresh = mk(ex.array(p3), ex.array(p2))
    elif how == 'iadd_to':
        delta = [ex.real('dx', -10, 10), ex.real('dy', -10, 10), 0.0]
        tr.to_point += ex.array(delta)
        fresh = mk(ex.array(p1), ex.array([p2[0] + delta[0], p2[1] + delta[1], p2[2]]))
    elif how == 'ice':
        ice2 = AntarcticIce(n0=1.7, k=0.4, a=0.02) if kind != 'uniform' else UniformIce(1.7)
        tr.ice = ice2
        fresh = type(tr)(ex.array(p1), ex.array(p2), ice_model=ice2)
    if ex.twin == 'stale':
        fresh = mk(ex.array(p1), ex.array(p2))
    for nm, old in zip(names, first):
        new = getattr(tr, nm)
        want = getattr(fresh, nm)
        if isinstance(want, (bool, np.bool_)) or isinstance(new, (bool, np.bool_)) \
                or isinstance(want, P.SymBool) or isinstance(new, P.SymBool):
            ex.true(new == want, 'tracer-%s-fresh-after-change' % nm)
        else:
            ex.close(new, want, 'tracer-%s-fresh-after-change' % nm, tol=1e-9)


HARNESSES = [
    Harness('signal-sequences', h_sequences, _mods, encodes=_enc, twins=('no-filter',),
            cases={'quick': _cases('quick'), 'thorough': _cases('thorough')},
            budget={'quick': {'wall_s': 200}, 'thorough': {'wall_s': 600}}),
    Harness('subclasses', h_subclasses, _mods, encodes=_enc),
    Harness('thermal-noise-attributes', h_noise_attrs, _mods, encodes=_enc, twins=('stale',),
            cases={'quick': [{'n': 5, 'band': (0.15, 0.45), 'cls': c, 'attr': a}
                             for c in ('fft', 'full') for a in ('amps', 'rms')],
                   'thorough': [{'n': n, 'band': (0.15, 0.45), 'cls': c, 'attr': a}
                                for n in (4, 5, 6) for c in ('fft', 'full')
                                for a in ('amps', 'rms')]},
            budget={'quick': {'wall_s': 200, 'query_timeout_ms': 60000}}),
    Harness('tracer-attributes', h_tracer_attrs, _rt_mods, encodes=_rt_enc, twins=('stale',),
            cases={'quick': [{'kind': k, 'how': h} for k in ('specialized', 'basic', 'uniform')
                             for h in ('assign_to', 'assign_from', 'iadd_to', 'ice')],
                   'thorough': [{'kind': k, 'how': h}
                                for k in ('specialized', 'basic', 'uniform')
                                for h in ('assign_to', 'assign_from', 'iadd_to', 'ice')]}),
]

BOUNDS = {
    'quick': {'sequences': 'all single operations, all pairs over 7 operations (each step '
                           'followed by a read), two hand-picked triples', 'n': '3 samples '
              '(2 and 4 in the triples)', 'function': 'uninterpreted g(t): any function',
              'factors/shifts/responses': 'symbolic', 'buffers': 'fixed set {1.5,1.0 / forced '
              '0,2.0 / from with_times}'},
    'thorough': {'sequences': 'all pairs over 13 operations, all triples over 7', 'n': '2,3,4'},
}
OUTSIDE = ["in-place mutation of array *contents* (tracer.from_point[2] = ...) which is not "
           "attribute assignment", "resample to a different length (scipy.signal.resample)",
           "expensive tracer quantities (solutions, peak_angle: root finding) - the cache "
           "mechanism is shared, the cheap derived quantities are checked"]
ASSUMPTIONS = ["the harness-side eager evaluator is the property's definition (twin: an "
               "evaluator that ignores filters must be refuted)"]
