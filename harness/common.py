"""Helpers shared by harnesses."""
import math
import numpy as np
import z3

from symx import poly as P
from symx import ctx as C
from symx import arr as A


class UFun:
    """An uninterpreted real function of one real argument in symbolic mode (so *any*
    generating function is covered); a fixed smooth function in concrete replay."""

    def __init__(self, ex, name, concrete=None, lo=None, hi=None):
        self.ex = ex
        self.name = name
        self.concrete = concrete or (lambda t: math.sin(1.3 * t + 0.4) + 0.25 * t)
        self.lo, self.hi = lo, hi
        self.calls = 0
        self.args = []
        if ex.sym:
            self.f = z3.Function(name, z3.RealSort(), z3.RealSort())

    def _one(self, t):
        self.calls += 1
        self.args.append(t)
        if not self.ex.sym:
            return float(self.concrete(float(t)))
        tz = P.lift(t)
        app = self.f(tz.z3())
        r = P.atom(app, ('uf', self.name, tz.key()))
        c = C.cur()
        if self.lo is not None:
            c.add_axiom(app >= P._rv(P._fr(self.lo)))
        if self.hi is not None:
            c.add_axiom(app <= P._rv(P._fr(self.hi)))
        return r

    def __call__(self, t):
        if isinstance(t, np.ndarray):
            out = [self._one(x) for x in t.ravel()]
            if self.ex.sym:
                return self.ex.array(out).reshape(t.shape)
            return np.array(out, dtype=float).reshape(t.shape)
        if isinstance(t, (list, tuple)):
            return self.__call__(np.asarray(t, dtype=object if self.ex.sym else float))
        return self._one(t)

    def __deepcopy__(self, memo):
        return self           # functions are immutable values (copy.deepcopy(lambda) is itself)


def shares(a, b):
    """Do two arrays share memory (either representation)?"""
    a = np.asarray(a)
    b = np.asarray(b)
    if a.size == 0 or b.size == 0:
        return a is b
    return bool(np.shares_memory(a, b))


def snapshot(x):
    """A detached copy of an array's current element terms/values."""
    return list(np.asarray(x, dtype=object).ravel()) if isinstance(x, np.ndarray) else list(x)
