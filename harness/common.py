"""Helpers shared by harnesses."""
import math
import numpy as np
import z3

from symx import poly as P
from symx import ctx as C
from symx import arr as A


class UFun:
    """An uninterpreted real function of one real argument in symbolic mode (so *any*
    generating function with values in [lo,hi] is covered): one fresh real per distinct
    argument normal form plus pairwise congruence axioms (a1 == a2 -> f(a1) == f(a2)), which
    keeps the queries in QF_NRA.  In concrete replay the function takes the model's values
    at the model's arguments and a fixed smooth function elsewhere."""

    def __init__(self, ex, name, concrete=None, lo=-1e3, hi=1e3):
        self.ex = ex
        self.name = name
        self.concrete = concrete or (lambda t: math.sin(1.3 * t + 0.4) + 0.25 * math.cos(t))
        self.lo, self.hi = lo, hi
        self.calls = 0
        if ex.sym:
            c = C.cur()
            if not hasattr(c, 'ufuns'):
                c.ufuns = {}
            self.table = c.ufuns.setdefault(name, [])
        else:
            self.table = ex.uf_tables.get(name, [])

    def _one(self, t):
        self.calls += 1
        if not self.ex.sym:
            t = float(t)
            for (a, v) in self.table:
                if abs(a - t) <= 1e-9 * (1.0 + abs(t)):
                    return float(v)
            return float(self.concrete(t))
        tz = P.lift(t)
        c = C.cur()
        key = ('uf', self.name, tz.key())
        idx = c.atom_by_key.get(key)
        if idx is None:
            v = z3.Real('%s@%d' % (self.name, len(self.table)))
            idx = c.new_atom(v, key)
            az = tz.z3()
            if self.lo is not None:
                c.add_axiom(v >= P._rv(P._fr(self.lo)))
            if self.hi is not None:
                c.add_axiom(v <= P._rv(P._fr(self.hi)))
            for (oa, ov) in self.table:
                c.add_axiom(z3.Implies(az == oa, v == ov))
            self.table.append((az, v))
        return P.SymReal({((idx, 1),): P.Fr(1)})

    def __call__(self, t):
        if isinstance(t, np.ndarray):
            out = [self._one(x) for x in t.ravel()]
            if self.ex.sym:
                return self.ex.array(out).reshape(t.shape)
            return np.array(out, dtype=float).reshape(t.shape)
        if isinstance(t, (list, tuple)):
            return self.__call__(np.asarray(t, dtype=object if self.ex.sym else float))
        return self._one(t)

    def __deepcopy__(self, memo):
        return self           # functions are immutable values (copy.deepcopy(lambda) is itself)


def shares(a, b):
    """Do two arrays share memory (either representation)?"""
    a = np.asarray(a)
    b = np.asarray(b)
    if a.size == 0 or b.size == 0:
        return a is b
    return bool(np.shares_memory(a, b))


def snapshot(x):
    """A detached copy of an array's current element terms/values."""
    return list(np.asarray(x, dtype=object).ravel()) if isinstance(x, np.ndarray) else list(x)


class HRandom:
    """np.random stand-in used in both modes: every draw is a harness input.  Uniform draws
    are rnd_<k> in [0,1); with angle=True a uniform draw u is represented as Phi/(2 pi) for
    an angle variable Phi in [0, 2 pi) so that `u * 2 * pi` is an angle atom."""

    def __init__(self, ex, angle=False):
        self.ex = ex
        self.n = 0
        self.draws = []
        self.angles = []
        self.angle = angle
        self.rayleigh_draws = []

    def _u(self):
        self.n += 1
        if self.angle:
            phi = self.ex.real('phi_%d' % self.n, 0.0, 2 * math.pi, hi_strict=True)
            self.angles.append(phi)
            v = phi / (2 * math.pi)
        else:
            v = self.ex.real('rnd_%d' % self.n, 0.0, 1.0, hi_strict=True)
        self.draws.append(v)
        return v

    def _many(self, shape):
        if shape in (None, ()):
            return self._u()
        shape = (shape,) if isinstance(shape, (int, np.integer)) else tuple(shape)
        vals = [self._u() for _ in range(int(np.prod(shape)))]
        return self.ex.array(vals).reshape(shape)

    def random_sample(self, size=None):
        return self._many(size)

    def rand(self, *shape):
        return self._many(shape)

    def rayleigh(self, scale=1.0, size=None):
        shape = (size,) if isinstance(size, (int, np.integer)) else tuple(size or ())
        vals = []
        for _ in range(int(np.prod(shape)) if shape else 1):
            self.n += 1
            r = self.ex.real('ray_%d' % self.n, 0.0, 5.0)
            self.rayleigh_draws.append(r)
            vals.append(r * scale)
        if not shape:
            return vals[0]
        return self.ex.array(vals).reshape(shape)


class _NPProxy:
    def __init__(self, real, **over):
        self._real = real
        self.__dict__.update(over)

    def __getattr__(self, n):
        return getattr(self._real, n)


import contextlib


@contextlib.contextmanager
def patched_random(ex, module, angle=False):
    rnd = HRandom(ex, angle=angle)
    old = module.np
    if ex.sym:
        old_r = module.np.random
        module.np.random = rnd
        try:
            yield rnd
        finally:
            module.np.random = old_r
    else:
        module.np = _NPProxy(np, random=rnd)
        try:
            yield rnd
        finally:
            module.np = old
