"""C07 - Askaryan pulses obey their scaling laws and fail gracefully.

Encoded: ZHSAskaryanSignal.__init__/get_signal, AVZAskaryanSignal.__init__/get_signal,
ARZAskaryanSignal.__init__/shower_signal/em_shower_RAC/had_shower_RAC (pyrex/askaryan.py);
FunctionSignal.values (pyrex/signals.py).
"""
import math
import types
import numpy as np

from symx.explore import Harness
from symx import poly as P


def _mods():
    import pyrex.askaryan
    import pyrex.signals
    import pyrex.internal_functions
    return [pyrex.askaryan, pyrex.signals, pyrex.internal_functions]


def _enc():
    import pyrex.askaryan as ak
    from pyrex.signals import FunctionSignal
    return [ak.ZHSAskaryanSignal.__init__, ak.AVZAskaryanSignal.__init__,
            ak.ARZAskaryanSignal.__init__, ak.ARZAskaryanSignal.shower_signal,
            ak.ARZAskaryanSignal.em_shower_RAC, ak.ARZAskaryanSignal.had_shower_RAC,
            FunctionSignal.values.fget]


_FD = ('zhs', 'avz')
N_ICE = 1.78
THETA_C = float(np.arccos(1 / N_ICE))


class Ice:
    def __init__(self, n=N_ICE):
        self.n = n

    def index(self, z):
        return self.n


def particle(energy, em, had, depth=-1000.0):
    return types.SimpleNamespace(energy=energy, vertex=(0.0, 0.0, depth),
                                 interaction=types.SimpleNamespace(em_frac=em, had_frac=had))


def _model(name):
    import pyrex.askaryan as ak
    return {'zhs': ak.ZHSAskaryanSignal, 'avz': ak.AVZAskaryanSignal,
            'arz': ak.ARZAskaryanSignal}[name]


def _times(ex, n, dt, start, tau=0.0):
    return ex.array([start + tau + i * dt for i in range(n)]) if ex.sym or True else None


def _vals(sig):
    return list(sig.values)


def _norm(ex, vals):
    """1 / (largest magnitude) of a list of values, read off a concrete evaluation (the
    primal part of symbolic entries is not needed: callers pass the concrete base run)"""
    m = max([abs(float(x)) for x in vals] + [0.0])
    return 1.0 / m if m > 0 else 1.0


def h_distance(ex):
    """field x viewing distance is independent of the viewing distance (exact 1/R law),
    R symbolic; the returned array has one value per time sample."""
    cls = _model(ex.case['model'])
    n, dt = ex.case['n'], ex.case.get('dt', 1e-9)
    R = ex.real('R', 0.1, 1e4)
    E = ex.case.get('energy', 1e8)
    em, had = ex.case.get('fracs', (0.6, 0.4))
    va = ex.case.get('angle', THETA_C + 0.02)
    t0 = ex.case.get('t0', 2.2e-9)
    times = np.array([-1e-9 * (n // 2) + i * dt for i in range(n)])
    p = particle(E, em, had)
    s1 = cls(times, p, va, viewing_distance=1.0, ice_model=Ice(), t0=t0)
    sR = cls(times, p, va, viewing_distance=R, ice_model=Ice(), t0=t0)
    v1, vR = _vals(s1), _vals(sR)
    ex.same(len(vR), n, 'one-value-per-sample')
    scale = 1.0 / max(1e-300, max(abs(float(x)) for x in v1))
    want = [x * scale for x in v1]
    if ex.twin == 'inverse-square':
        want = [x * scale / R for x in v1]
    ex.close([x * R * scale for x in vR], want, 'field-times-distance-is-constant', tol=1e-9)
    ex.note('nonzero' if scale < 1e299 else 'zero')


def h_even(ex):
    """the field depends on the viewing angle only through its magnitude: values(theta) ==
    values(-theta), theta symbolic (ZHS/AVZ) or from a family with the sign decided
    symbolically (ARZ)."""
    cls = _model(ex.case['model'])
    n, dt = ex.case['n'], ex.case.get('dt', 1e-9)
    E = ex.case.get('energy', 1e8)
    em, had = ex.case.get('fracs', (0.6, 0.4))
    t0 = ex.case.get('t0', 1.2e-9)
    times = np.array([-1e-9 * (n // 2) + i * dt for i in range(n)])
    p = particle(E, em, had)
    if ex.case.get('theta') is not None:
        th = ex.case['theta']
    else:
        lo, hi = ex.case.get('range', (0.3, 2.8))
        th = ex.real('theta', lo, hi)
    a = cls(times, p, th, viewing_distance=10.0, ice_model=Ice(), t0=t0)
    b = cls(times, p, -th, viewing_distance=10.0, ice_model=Ice(), t0=t0)
    va, vb = _vals(a), _vals(b)
    ref = _vals(cls(times, p, ex.case.get('theta') or THETA_C + 0.01, viewing_distance=10.0,
                    ice_model=Ice(), t0=t0))
    sc = _norm(ex, ref)
    if ex.twin == 'odd':
        vb = [-x + 1e-2 / sc for x in vb]
    ex.close([x * sc for x in vb], [x * sc for x in va], 'values(-theta)==values(theta)',
             tol=1e-6)


def h_shift(ex):
    """shifting the time grid and the shower time together by any tau leaves the values
    unchanged (tau symbolic); moving only the shower time by k whole samples moves the pulse
    by k samples (k in -2..2, one explored path each)."""
    cls = _model(ex.case['model'])
    # a step for which dt / 10 ps is not at an integer boundary (ARZ's dt_divider)
    n, dt = ex.case['n'], ex.case.get('dt', 0.93e-9)
    E = ex.case.get('energy', 1e8)
    em, had = ex.case.get('fracs', (0.6, 0.4))
    va = ex.case.get('angle', THETA_C + 0.03)
    t0 = ex.case.get('t0', 0.35e-9)
    start = -1e-9 * (n // 2)
    tau = ex.real('tau', -1e-6, 1e-6)
    p = particle(E, em, had)
    base = cls(np.array([start + i * dt for i in range(n)]), p, va, 10.0, Ice(), t0)
    moved = cls(ex.array([start + tau + i * dt for i in range(n)]), p, va, 10.0, Ice(), t0 + tau)
    vb, vm = _vals(base), _vals(moved)
    sc = _norm(ex, vb)
    ex.close([x * sc for x in vm], [x * sc for x in vb], 'common-shift-leaves-values-unchanged',
             tol=1e-6)
    k = int(ex.choice(5, 'k')) - 2
    shifted = cls(np.array([start + i * dt for i in range(n)]), p, va, 10.0, Ice(), t0 + k * dt)
    vs = _vals(shifted)
    lo, hi = max(0, -k), min(n, n - k)
    got = [vs[i + k] * sc for i in range(lo, hi)]
    want = [vb[i] * sc for i in range(lo, hi)]
    if ex.twin == 'off-by-one' and k != 0:
        want = [vb[min(n - 1, i + 1)] * sc + 1e-2 for i in range(lo, hi)]
    if ex.case.get('edge_tol'):
        # frequency-domain models: the 2N-periodic transform moves exactly; ARZ: interior only
        pass
    ex.close(got, want, 'whole-sample-move-of-the-shower-time-moves-the-pulse', tol=ex.case.get(
        'tol', 1e-6))


def h_zero(ex):
    """zero shower energy (zero particle energy, or both fractions zero): an all-zero field
    with one value per sample; any energy: all values finite."""
    cls = _model(ex.case['model'])
    n, dt = ex.case['n'], ex.case.get('dt', 1e-9)
    how = ex.case['how']
    times = np.array([-1e-9 * (n // 2) + i * dt for i in range(n)])
    R = ex.real('R', 0.1, 1e4)
    th = ex.case.get('angle', 1.0)
    if how == 'energy':
        p = particle(0.0, 0.6, 0.4)
    elif how == 'fracs':
        p = particle(1e8, 0.0, 0.0)
    elif ex.case['model'] in _FD:
        # frequency-domain models: any particle energy (GeV), incl. hadronic showers below
        # the 1 TeV threshold of the AVZ parameterisation
        p = particle(ex.real('E', 1e-3, 1e12), *ex.case.get('fracs', (0.6, 0.4)))
    else:
        p = particle(ex.case.get('energy', 1e8), *ex.case.get('fracs', (0.6, 0.4)))
    ex.watch_divisions(True)
    s = cls(times, p, th, viewing_distance=R, ice_model=Ice(), t0=ex.case.get('t0', 0.3e-9))
    v = _vals(s)
    ex.same(len(v), n, 'one-value-per-sample')
    if how in ('energy', 'fracs'):
        ex.close(v, [0.0 if ex.twin != 'nonzero' else 1.0] * n, 'zero-energy-gives-all-zero-field',
                 tol=0.0)
    else:
        ex.finite(v, 'values-finite')


def h_cone(ex):
    """frequency-domain models: the pulse extremum (ZHS: the sample at the shower time, all
    components in phase; AVZ: the sample before it, see below) is largest on the Cherenkov cone and falls with the angular distance on either
    side (ZHS; AVZ: after dividing by the sin(theta) projection factor), and on the cone an
    electromagnetic shower's field is proportional to its energy."""
    cls = _model(ex.case['model'])
    model = ex.case['model']
    n, dt = ex.case['n'], ex.case.get('dt', 1e-9)
    times = np.array([-1e-9 * (n // 2) + i * dt for i in range(n)])
    i0 = n // 2
    t0 = float(times[i0])
    E = ex.case.get('energy', 1e8)
    side = ex.case['side']
    d1 = ex.real('d1', 0.0, 0.5)
    d2 = ex.real('d2', 0.0, 0.5)
    ex.assume(d1 <= d2)
    sg = 1.0 if side == 'above' else -1.0
    if ex.sym:
        # far from the cone the components are exp(-large): a ladder of concrete points
        # bounds those tails from above (monotonicity against each point)
        for x in (-0.5, -1.0, -2.0, -3.0, -5.0, -8.0, -12.0, -20.0, -40.0, -100.0):
            P.note_exp_point(x, math.exp(x))
    p = particle(E, 1.0, 0.0)
    sc = _norm(ex, _vals(cls(times, p, THETA_C, viewing_distance=1.0, ice_model=Ice(), t0=t0)))

    def peak(theta):
        v = _vals(cls(times, p, theta, viewing_distance=1.0, ice_model=Ice(), t0=t0))
        if model == 'avz':
            # AVZ sets all phases to 90 degrees: the pulse is odd about the shower time
            # (zero there); its extremum sample is the neighbour, where every frequency
            # component enters with the same sign (sin(2 pi j / N) > 0 for j < N/2)
            return v[i0 - 1] * sc / np.sin(theta)
        return v[i0] * sc
    a1 = peak(THETA_C + sg * d1)
    a2 = peak(THETA_C + sg * d2)
    a0 = peak(THETA_C)
    if ex.twin == 'rising':
        a2, a1 = a1 + 1e-2, a2
    mag = (lambda x: x) if float(P.primal(a0) if ex.sym and isinstance(a0, P.SymReal) else a0) >= 0 \
        else (lambda x: -x)
    ex.le(mag(a2), mag(a1), 'peak-falls-with-angular-distance:' + side, tol=1e-4)
    ex.le(mag(a1), mag(a0), 'peak-largest-on-the-cone:' + side, tol=1e-4)


def h_energy(ex):
    """on the cone an electromagnetic shower's field is proportional to the shower energy
    (energy symbolic)."""
    cls = _model(ex.case['model'])
    n, dt = ex.case['n'], ex.case.get('dt', 1e-9)
    times = np.array([-1e-9 * (n // 2) + i * dt for i in range(n)])
    t0 = ex.case.get('t0', 0.3e-9)
    lam = ex.real('lam', 0.01, 100.0)
    E = ex.case.get('energy', 1e8)
    a = _vals(cls(times, particle(E, 1.0, 0.0), THETA_C, 1.0, Ice(), t0))
    sc = _norm(ex, a) / 100.0
    b = _vals(cls(times, particle(E * lam, 1.0, 0.0), THETA_C, 1.0, Ice(), t0))
    want = [x * lam * sc for x in a]
    if ex.twin == 'sqrt':
        want = [x * lam * lam * sc for x in a]
    ex.close([x * sc for x in b], want, 'on-cone-em-field-proportional-to-energy', tol=1e-6)


HARNESSES = [
    Harness('inverse-distance', h_distance, _mods, encodes=_enc, twins=('inverse-square',),
            cases={'quick': [{'model': 'zhs', 'n': 4, '_twins': 1}, {'model': 'avz', 'n': 5},
                             {'model': 'arz', 'n': 8},
                             {'model': 'arz', 'n': 6, 'angle': THETA_C}],
                   'thorough': [{'model': m, 'n': n, 'angle': a, 'fracs': fr}
                                for m in ('zhs', 'avz', 'arz') for n in (4, 5, 8)
                                for a in (THETA_C, THETA_C + 0.02, -0.7)
                                for fr in ((0.6, 0.4), (1.0, 0.0), (0.0, 1.0))]}),
    Harness('even-in-angle', h_even, _mods, encodes=_enc, twins=('odd',),
            budget={'quick': {'resolve_ite': True}, 'thorough': {'resolve_ite': True}},
            cases={'quick': [{'model': 'zhs', 'n': 2, '_twins': 1}, {'model': 'avz', 'n': 4},
                             {'model': 'arz', 'n': 6, 'theta': THETA_C + 0.02}],
                   'thorough': [{'model': 'zhs', 'n': 2, '_twins': 1}, {'model': 'zhs', 'n': 3},
                                {'model': 'avz', 'n': 4}, {'model': 'avz', 'n': 5},
                                {'model': 'avz', 'n': 4, 'fracs': (0.0, 1.0)}] +
                   [{'model': 'arz', 'n': 6, 'theta': t} for t in
                    (THETA_C + 0.02, THETA_C, 0.4, 2.5)]}),
    Harness('time-shift', h_shift, _mods, encodes=_enc, twins=('off-by-one',),
            cases={'quick': [{'model': 'zhs', 'n': 4, '_twins': 1}, {'model': 'avz', 'n': 6},
                             {'model': 'arz', 'n': 8},
                             # exactly on the cone: ARZ's closed-form shortcut branch
                             {'model': 'arz', 'n': 8, 'angle': THETA_C}],
                   'thorough': [{'model': m, 'n': n, 't0': t} for m in ('zhs', 'avz', 'arz')
                                for n in (6, 7) for t in (0.35e-9, -0.6e-9)] +
                   [{'model': m, 'n': n, 't0': t, 'angle': THETA_C} for m in ('zhs', 'avz', 'arz')
                    for n in (6, 7) for t in (0.35e-9, -0.6e-9)]}),
    Harness('zero-energy-and-finite', h_zero, _mods, encodes=_enc, twins=('nonzero',),
            cases={'quick': [{'model': m, 'n': 4, 'how': h} for m in ('zhs', 'avz', 'arz')
                             for h in ('energy', 'fracs', 'finite')] +
                   [{'model': 'avz', 'n': 4, 'how': 'finite', 'angle': THETA_C},
                    {'model': 'zhs', 'n': 4, 'how': 'finite', 'angle': THETA_C},
                    {'model': 'arz', 'n': 4, 'how': 'finite', 'energy': 0.05},
                    {'model': 'arz', 'n': 4, 'how': 'finite', 'energy': 30.0, 'angle': THETA_C}],
                   'thorough': [{'model': m, 'n': n, 'how': h, 'angle': a}
                                for m in ('zhs', 'avz', 'arz') for n in (4, 5)
                                for h in ('energy', 'fracs', 'finite')
                                for a in (1.0, THETA_C, 0.0, math.pi)]}),
    Harness('cone-peak', h_cone, _mods, encodes=_enc, twins=('rising',),
            cases={'quick': [{'model': 'zhs', 'n': 2, 'side': 'above', '_twins': 1},
                             {'model': 'zhs', 'n': 2, 'side': 'below'},
                             {'model': 'zhs', 'n': 3, 'side': 'above'}],
                   'thorough': [{'model': m, 'n': n, 'side': s} for m, n in
                                (('zhs', 2), ('zhs', 3))
                                for s in ('above', 'below')]},
            budget={'quick': {'wall_s': 300, 'query_timeout_ms': 60000}}),
    Harness('energy-proportional', h_energy, _mods, encodes=_enc, twins=('sqrt',),
            cases={'quick': [{'model': 'zhs', 'n': 4}, {'model': 'avz', 'n': 4},
                             {'model': 'arz', 'n': 6}],
                   'thorough': [{'model': m, 'n': n} for m in ('zhs', 'avz', 'arz')
                                for n in (4, 5, 8)]}),
]

BOUNDS = {
    'quick': {'time grid': '2-8 samples, dt = 1 ns, offsets from a family',
              'viewing distance': 'symbolic in [0.1, 1e4] m', 'viewing angle': 'symbolic in '
              '[0.3, 2.8] rad (ZHS/AVZ evenness), symbolic offset from the cone up to 0.5 rad '
              '(cone peak), family of angles incl. on-cone (ARZ)', 'common time shift': 'symbolic '
              'in [-1e-6, 1e-6] s', 'shower-time move': 'k in -2..2 samples (solver-enumerated)',
              'energy': '1e8 GeV x symbolic factor in [0.01, 100] (proportionality); concrete '
              'elsewhere', 'index': '1.78'},
    'thorough': {'time grid': '4-8 samples, odd and even'},
}
OUTSIDE = ["ARZ off-cone convolution with symbolic angle/shower time (>= 1000 x 2000 point "
           "convolution of transcendental profiles): ARZ is checked with symbolic distance, "
           "symbolic common time shift, symbolic energy factor on the cone and concrete angle "
           "families only; ARZ cone-peak ordering is outside",
           "AVZ cone-peak ordering: the sin(theta)/sin(theta_c) projection factor moves the "
           "maximum of each component above the cone by about cot(theta_c) dTheta^2 / (2 ln 2) "
           "(4e-4 of the peak at 250 MHz), and the product of trigonometric and exponential "
           "atoms is not decided by z3 within the budget; the harness code for AVZ is kept but "
           "no AVZ case is registered",
           "float rounding of (t0 - times[0]) / dt at exact sample boundaries"]
ASSUMPTIONS = ["scipy.fft / numpy.fft compute the DFT (shim compared with numpy every run)",
               "scipy.signal.convolve is the full discrete convolution"]
