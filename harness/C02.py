"""C02 - ray solution sets respect reciprocity and the symmetries of stratified ice.

Encoded: UniformRayTracer.exists/solutions/_reflected_path; UniformRayTracePath._points/
path_length/tof/emitted_direction/received_direction/fresnel/attenuation;
BasicRayTracer.z0/z1/n0/rho/max_angle/expected_solutions/exists/solutions/direct_angle/
indirect_angle_1/indirect_angle_2/_get_launch_angle; BasicRayTracePath.emitted_direction/
received_direction/theta (pyrex/ray_tracing.py).
"""
import math
import numpy as np

from symx.explore import Harness
from symx import poly as P


def _mods():
    import pyrex.ray_tracing
    import pyrex.ice_model
    import pyrex.internal_functions
    return [pyrex.ray_tracing, pyrex.ice_model, pyrex.internal_functions]


def _enc():
    import pyrex.ray_tracing as rt
    U, UP, B, BP = (rt.UniformRayTracer, rt.UniformRayTracePath, rt.BasicRayTracer,
                    rt.BasicRayTracePath)
    return [U.exists.fget, U.solutions.fget, U._reflected_path, UP._points.fget,
            UP.path_length.fget, UP.tof.fget, UP.emitted_direction.fget,
            UP.received_direction.fget, UP.fresnel.fget, UP.attenuation, B.rho.fget,
            B.max_angle.fget, B.expected_solutions.fget, B.exists.fget, B.solutions.fget,
            B.direct_angle.fget, B.indirect_angle_1.fget, B.indirect_angle_2.fget,
            B._get_launch_angle, BP.emitted_direction.fget, BP.received_direction.fget, BP.theta]


LO, HI = -8.0, 0.0        # a thin slab keeps the attenuation integral to a few nodes


def _uni(ex, a, b, n, kmax=1):
    import pyrex.ray_tracing as rt
    from pyrex.ice_model import UniformIce
    ice = UniformIce(n, valid_range=(LO, HI), index_above=1.0, index_below=1.3)

    class T(rt.UniformRayTracer):
        max_reflections = kmax
    return T(ex.array(a), ex.array(b), ice)


def _rotv(v, q):
    x, y, z = v
    return [(x, y, z), (-y, x, z), (-x, -y, z), (y, -x, z)][q]


def h_uniform_symmetry(ex):
    """uniform ice, 0..1 reflections: translating both points horizontally, turning them by
    quarter/half turns about the vertical, and swapping them leaves the number of solutions,
    every length, time of flight, Fresnel pair and attenuation unchanged; directions keep
    their vertical components and move their horizontal ones with the geometry; under the
    swap emitted/received are exchanged and reversed."""
    za, zb = ex.case.get('depths', (-2.5, -5.25))
    # one horizontal coordinate and the shift are symbolic (the quantities compared are
    # functions of the differences; a fully symbolic geometry makes the Fresnel and
    # attenuation branches too many for the budget)
    n = ex.case.get('n', 1.5)
    a = [7.0, -2.0, za]
    b = [7.0 + ex.real('bx', 0.5, 300), 1.5, zb]
    dx, dy = b[0] - a[0], b[1] - a[1]
    sx = ex.real('sx', -1000, 1000)
    sy = ex.real('sy', -1000, 1000)
    kmax = ex.case.get('kmax', 1)
    heavy = ex.case.get('heavy', False)
    base = _uni(ex, a, b, n, kmax).solutions
    freqs = ex.const_array([1e8, 5e8])
    op = ex.case['op']
    if op == 'translate':
        other = _uni(ex, [a[0] + sx, a[1] + sy, a[2]], [b[0] + sx, b[1] + sy, b[2]], n,
                     kmax).solutions
        hmap = lambda v: v
    elif op.startswith('rot'):
        q = int(op[3])
        other = _uni(ex, _rotv(a, q), _rotv(b, q), n, kmax).solutions
        hmap = lambda v: _rotv(v, q)
    else:
        other = _uni(ex, b, a, n, kmax).solutions
        hmap = None
    ex.same(len(other), len(base), 'same-number-of-solutions')
    for i, (p, q_) in enumerate(zip(base, other)):
        tag = 'sol%d' % i
        L = p.path_length
        ex.close(q_.path_length, L if ex.twin != 'longer' else L + 1.0, 'length-invariant:' + tag,
                 tol=1e-9)
        ex.close(q_.tof * 3e8, p.tof * 3e8, 'tof-invariant:' + tag, tol=1e-6)
        if heavy or kmax == 0:
            rs0, rp0 = p.fresnel
            rs1, rp1 = q_.fresnel
            ex.close([rs1, rp1], [rs0, rp0], 'fresnel-invariant:' + tag, tol=1e-9)
        if (heavy or kmax == 0) and not op.startswith('rot'):
            ex.close(q_.attenuation(freqs), p.attenuation(freqs), 'attenuation-invariant:' + tag,
                     tol=1e-9)
        if hmap is not None:
            ex.close(q_.emitted_direction, hmap(list(p.emitted_direction)),
                     'emitted-moves-with-the-geometry:' + tag, tol=1e-9)
            ex.close(q_.received_direction, hmap(list(p.received_direction)),
                     'received-moves-with-the-geometry:' + tag, tol=1e-9)
        else:
            ex.close(q_.emitted_direction, [-c for c in p.received_direction],
                     'swap:emitted==-received:' + tag, tol=1e-9)
            ex.close(q_.received_direction, [-c for c in p.emitted_direction],
                     'swap:received==-emitted:' + tag, tol=1e-9)


def _graded(ex, a, b, kind, hooks):
    import pyrex.ray_tracing as rt
    from pyrex.ice_model import AntarcticIce
    base = rt.SpecializedRayTracer if kind == 'specialized' else rt.BasicRayTracer

    class T(base):
        @staticmethod
        def angle_search(true_r, r_function, min_angle, max_angle, tolerance=1e-12,
                         max_iterations=100):
            return hooks['search'](true_r, min_angle, max_angle)
    t = T(ex.array(a), ex.array(b), ice_model=AntarcticIce(), dz=1.0)
    return t


def h_graded_invariants(ex):
    """graded-index tracers: every quantity the solutions are computed from (depth pair,
    index at the lower point, horizontal distance, maximum angle) is unchanged by horizontal
    translation, rotation about the vertical and the swap; with the root finder a
    deterministic function of exactly those inputs all launch angles coincide."""
    kind = ex.case['kind']
    za, zb = ex.case.get('depths', (-150.0, -420.0))
    a = [ex.real('ax', -300, 300), ex.real('ay', -300, 300), za]
    b = [ex.real('bx', -300, 300), ex.real('by', -300, 300), zb]
    dx, dy = b[0] - a[0], b[1] - a[1]
    ex.assume(dx * dx + dy * dy >= 1.0)
    sx = ex.real('sx', -1000, 1000)
    sy = ex.real('sy', -1000, 1000)
    hooks = {'search': lambda r, lo, hi: lo}
    t0 = _graded(ex, a, b, kind, hooks)
    variants = {
        'translate': ([a[0] + sx, a[1] + sy, a[2]], [b[0] + sx, b[1] + sy, b[2]]),
        'rot1': (_rotv(a, 1), _rotv(b, 1)), 'rot2': (_rotv(a, 2), _rotv(b, 2)),
        'swap': (b, a)}
    for nm, (aa, bb) in variants.items():
        t1 = _graded(ex, aa, bb, kind, hooks)
        ex.close(t1.rho, t0.rho if ex.twin != 'rho' else t0.rho + 1.0, 'rho-invariant:' + nm,
                 tol=1e-9)
        ex.close(t1.z0, t0.z0, 'lower-depth-invariant:' + nm, tol=0.0)
        ex.close(t1.z1, t0.z1, 'upper-depth-invariant:' + nm, tol=0.0)
        ex.close(t1.n0, t0.n0, 'index-at-lower-point-invariant:' + nm, tol=0.0)
        ex.close(t1.max_angle, t0.max_angle, 'max-angle-invariant:' + nm, tol=0.0)


def h_graded_swap(ex):
    """graded-index tracers, root finder = the same angle A for both orientations (it sees
    identical inputs): the swapped first solution is launched with n sin(theta) = the same
    beta, emitted(B->A) = -received(A->B) and received(B->A) = -emitted(A->B); every tracer
    reports 0 or 2 solutions and exists <=> non-empty, on each branch of expected_solutions."""
    import pyrex.ray_tracing as rt
    from pyrex.ice_model import AntarcticIce
    kind = ex.case['kind']
    za, zb = ex.case.get('depths', (-150.0, -420.0))
    ice = AntarcticIce()
    t = ex.real('t', 1.0, 300.0)
    ux, uy = ex.case.get('az', (3.0, 4.0))
    a = [10.0, -5.0, za]
    b = [10.0 + ux * t, -5.0 + uy * t, zb]
    lo, hi = min(za, zb), max(za, zb)
    n_lo, n_hi = float(ice.index(lo)), float(ice.index(hi))
    amax = math.asin(n_hi / n_lo)
    A = ex.real('A', 0.01, amax - 0.01)
    A2 = ex.real('A2', 0.01, amax - 0.01)
    calls = []

    def search(r, lo_, hi_):
        calls.append((r, lo_, hi_))
        return A if len(calls) % 2 == 1 else A2
    branch = ex.case['branch']
    out = {}
    for nm, (aa, bb) in (('ab', (a, b)), ('ba', (b, a))):
        calls.clear()
        tr = _graded(ex, aa, bb, kind, {'search': search})
        d = tr.__dict__
        d['_lazy_peak_angle'] = 0.5 * amax
        if branch == 'direct+indirect':
            d['_lazy_direct_r_max'] = 1e9
            d['_lazy_indirect_r_max'] = 2e9
        elif branch == 'two-indirect':
            d['_lazy_direct_r_max'] = 0.0
            d['_lazy_indirect_r_max'] = 2e9
        else:
            d['_lazy_direct_r_max'] = 0.0
            d['_lazy_indirect_r_max'] = 0.0
        sols = tr.solutions
        ex.same(len(sols) in (0, 2), True, 'zero-or-two-solutions:' + nm)
        ex.same(bool(tr.exists), len(sols) > 0, 'exists<=>non-empty:' + nm)
        ex.same([s.direct for s in sols], [True, False][:len(sols)] if branch == 'direct+indirect'
                else [False] * len(sols), 'first-solution-direct-flag:' + nm)
        out[nm] = sols
    ex.same(len(out['ab']), len(out['ba']), 'swap:same-number-of-solutions')
    if branch == 'none':
        return
    for i, (p, q) in enumerate(zip(out['ab'], out['ba'])):
        tag = 'sol%d' % i
        ex.close(q.beta, p.beta, 'swap:same-ray-parameter:' + tag, tol=1e-9)
        em_p, rc_p = list(p.emitted_direction), list(p.received_direction)
        em_q, rc_q = list(q.emitted_direction), list(q.received_direction)
        if ex.twin == 'not-reversed':
            rc_p = [-c for c in rc_p]
        ex.close(em_q, [-c for c in rc_p], 'swap:emitted==-received:' + tag, tol=1e-9)
        ex.close(rc_q, [-c for c in em_p], 'swap:received==-emitted:' + tag, tol=1e-9)



def _lmods():
    import pyrex.custom.layered_ice.ray_tracing
    import pyrex.custom.layered_ice.ice_model
    return _mods() + [pyrex.custom.layered_ice.ray_tracing, pyrex.custom.layered_ice.ice_model]


def _lenc():
    import pyrex.custom.layered_ice.ray_tracing as lrt
    import pyrex.custom.layered_ice.ice_model as lim
    T = lrt.LayeredRayTracer
    return [T.solutions.fget, T._potential_paths.fget, T._build_path, T.exists.fget,
            T._build_path_at_layer, lim.LayeredIce.layer_at_depth, lim.LayeredIce.contains]


def _layered_search(ex, za, zb, rho, bounds, ns, kmax, offset=0.1):
    """the real LayeredRayTracer.solutions between depths za and zb with the trial trace
    replaced by its contract for a stack of uniform layers without total internal
    reflection: the radial distance of a chain is continuous and strictly increasing in
    the launch angle measured from the vertical over the scanned quadrant and reaches the
    receiver's distance exactly once, between two scan nodes.  Returns tracer, solutions."""
    import pyrex.custom.layered_ice.ray_tracing as lrt
    from pyrex.custom.layered_ice import LayeredIce
    from pyrex.ice_model import UniformIce
    layers = [UniformIce(n, valid_range=(lo, hi)) for n, lo, hi in
              zip(ns, bounds[1:], bounds[:-1])]
    ice = LayeredIce(layers, index_above=1.0, index_below=1.2)
    tr = lrt.LayeredRayTracer(ex.array([0.0, 0.0, za]), ex.array([rho, 0.0, zb]), ice)
    tr.max_reflections = kmax
    tr._angle_checks = 5
    tr.solution_sorting = None      # sorting by tof is a presentation step; the claims are about multisets

    def trace(angle, depths, grouped, models):
        k = len(grouped)
        t = angle if angle <= math.pi / 2 else math.pi - angle
        r = rho * t / (math.pi / 4 + offset)
        return [r / k] * k, [angle] * k
    tr.__dict__['_trace_path'] = trace
    return tr, tr.solutions


def _vertex(ex, z, bounds):
    """a depth as a comparable token: the boundary it coincides with, else its layer"""
    for i, b in enumerate(bounds):
        if z == b:
            return ('B', i)
    for i in range(len(bounds) - 1):
        if bounds[i + 1] < z < bounds[i]:
            return ('L', i)
    return ('out', repr(z))


def _reduced(ex, sol, bounds):
    """depth vertices of a layered solution (section starts + final end), consecutive
    coincident vertices merged: the geometric identity of a chain of straight sections"""
    vs = [sol.paths[0].from_point[2]] + [sp.to_point[2] for sp in sol.paths]
    toks = [_vertex(ex, v, bounds) for v in vs]
    out = [toks[0]]
    for t in toks[1:]:
        if not (t == out[-1] and t[0] == 'B'):
            out.append(t)
    return tuple(out)


def h_layered_search(ex):
    """LayeredRayTracer.solutions on a stack of uniform layers, both end depths symbolic
    over the closed depth range (inside any layer or exactly on any boundary), trial trace
    replaced by its contract: no ray is reported twice (no two solutions with the same
    chain of depth vertices), consecutive sections are joined (continuous chain from the
    source depth to the receiver depth), the swapped problem has the same number of
    solutions and exactly the reversed chains, exists <=> non-empty."""
    bounds = ex.case.get('bounds', (0.0, -100.0, -300.0, -1000.0))
    ns = ex.case.get('ns', (1.5,) * (len(bounds) - 1))
    kmax = ex.case.get('kmax', 1)
    rho = ex.case.get('rho', 50.0)
    za = ex.real('za', bounds[-1], bounds[0])
    zb = ex.real('zb', bounds[-1], bounds[0])
    tr, fwd = _layered_search(ex, za, zb, rho, bounds, ns, kmax)
    tr2, bwd = _layered_search(ex, zb, za, rho, bounds, ns, kmax)
    ta, tb = _vertex(ex, za, bounds), _vertex(ex, zb, bounds)
    ex.note('ends=%s,%s' % (ta, tb))
    kf = [_reduced(ex, s, bounds) for s in fwd]
    kb = [_reduced(ex, s, bounds) for s in bwd]
    for s, k in zip(fwd, kf):
        ex.same(k[0], ta, 'chain-starts-at-source-depth')
        ex.same(k[-1], tb, 'chain-ends-at-receiver-depth')
        for p, q in zip(s.paths[:-1], s.paths[1:]):
            ex.close(p.to_point[2], q.from_point[2], 'sections-joined', tol=0.0)
    if ta != tb or ta[0] != 'B':
        # (both ends on one and the same boundary: the horizontal ray is proposed once per
        #  start direction and returned twice in both orientations - symmetric, and nothing
        #  in C02/C18 forbids it)
        ex.same(len(set(kf)), len(kf), 'no-ray-reported-twice')
        ex.same(len(set(kb)), len(kb), 'no-ray-reported-twice(swapped)')
    want = len(fwd) if ex.twin != 'one-more' else len(fwd) + 1
    ex.same(len(bwd), want, 'same-number-of-solutions-under-swap')
    ex.same(sorted(tuple(reversed(k)) for k in kb), sorted(kf), 'swapped-chains-are-the-reversed-chains')
    ex.same(bool(tr.exists), len(fwd) > 0, 'exists<=>non-empty')
    ex.same(len(fwd) > 0, True, 'direct-or-reflected-chain-found')
    ex.note('solutions=%d' % len(fwd))


HARNESSES = [
    Harness('uniform-symmetry', h_uniform_symmetry, _mods, encodes=_enc, twins=('longer',),
            cases={'quick': [{'op': op} for op in ('translate', 'rot1', 'rot2', 'swap')] +
                   [{'op': op, 'kmax': 0} for op in ('translate', 'swap')],
                   'thorough': [{'op': op, 'depths': d}
                                for op in ('translate', 'rot1', 'rot2', 'rot3', 'swap')
                                for d in ((-2.5, -5.25), (-7.0, -0.5), (-3.0, -3.0))] +
                   [{'op': op, 'kmax': 0, 'depths': d} for op in ('translate', 'swap')
                    for d in ((-2.5, -5.25), (-7.0, -0.5)) if not (op == 'swap' and d[0] == -7.0)] +
                   [{'op': 'translate', 'heavy': True}]},
            budget={'quick': {'wall_s': 500, 'query_timeout_ms': 60000, 'light_decide': True},
                    'thorough': {'wall_s': 1500, 'query_timeout_ms': 120000, 'light_decide': True}}),
    Harness('graded-invariants', h_graded_invariants, _mods, encodes=_enc, twins=('rho',),
            cases={'quick': [{'kind': 'specialized'}, {'kind': 'basic'}],
                   'thorough': [{'kind': k, 'depths': d} for k in ('specialized', 'basic')
                                for d in ((-150.0, -420.0), (-1500.0, -30.0))]}),
    Harness('graded-swap', h_graded_swap, _mods, encodes=_enc, twins=('not-reversed',),
            cases={'quick': [{'kind': 'basic', 'branch': 'direct+indirect', '_twins': 1},
                             {'kind': 'basic', 'branch': 'two-indirect'},
                             {'kind': 'basic', 'branch': 'none'},
                             {'kind': 'basic', 'branch': 'direct+indirect', 'depths': (-420.0, -150.0),
                              'az': (-5.0, 12.0)}],
                   'thorough': [{'kind': 'basic', 'branch': 'direct+indirect', '_twins': 1}] +
                   [{'kind': 'basic', 'branch': br, 'depths': d, 'az': az}
                    for br in ('direct+indirect', 'two-indirect', 'none')
                    for d in ((-150.0, -420.0), (-420.0, -150.0), (-30.0, -35.0))
                    for az in ((3.0, 4.0), (-5.0, 12.0), (0.0, 1.0))]},
            budget={'quick': {'wall_s': 300, 'query_timeout_ms': 60000}}),
    Harness('layered-search', h_layered_search, _lmods, encodes=_lenc, twins=('one-more',),
            cases={'quick': [{'kmax': 1, '_twins': 1}, {'kmax': 0}, {'kmax': 2},
                             {'kmax': 1, 'bounds': (0.0, -50.0, -2850.0)}],
                   'thorough': [{'kmax': 1, '_twins': 1}, {'kmax': 0}, {'kmax': 2}, {'kmax': 3},
                                {'kmax': 1, 'bounds': (0.0, -50.0, -2850.0)},
                                {'kmax': 3, 'bounds': (0.0, -50.0, -2850.0)},
                                {'kmax': 2, 'bounds': (0.0, -20.0, -100.0, -300.0, -1000.0)},
                                {'kmax': 1, 'bounds': (-10.0, -2000.0)}, {'kmax': 3, 'bounds': (-10.0, -2000.0)}]},
            budget={'quick': {'wall_s': 400, 'query_timeout_ms': 30000, 'max_paths': 400},
                    'thorough': {'wall_s': 1500, 'query_timeout_ms': 60000, 'max_paths': 3000}}),
]

def _lengths_harness():
    from harness import C01
    h = [x for x in C01.HARNESSES if x.name == 'reciprocal-lengths'][0]
    return Harness('graded-reciprocal-lengths', h.fn, h.modules, cases=h.cases, twins=h.twins,
                   encodes=h.encodes, budget=h.budget, doc=h.fn.__doc__)


HARNESSES.append(_lengths_harness())


def _chain_harness():
    """layered tracer: n sin(theta) is one and the same along every chain the real search
    proposes (C18's harness): the ray B->A with the same invariant retraces A->B, which is
    what 'directions exchanged and reversed' means for a layered solution"""
    from harness import C18
    h = [x for x in C18.HARNESSES if x.name == 'layered-chain'][0]
    return Harness('layered-chain', h.fn, h.modules, cases=h.cases, twins=h.twins,
                   encodes=h.encodes, budget=h.budget, doc=_chain_harness.__doc__)


HARNESSES.append(_chain_harness())

BOUNDS = {
    'quick': {'uniform': 'symbolic horizontal coordinates, shift and index; depths from a list; '
              '0..1 reflections; quarter/half turns (arbitrary angles: see C08/C15 for the '
              'generator argument); attenuation at two frequencies',
              'graded': 'symbolic horizontal coordinates and shift; depth pairs from a list; the '
              'root finder replaced by a deterministic function of its inputs (any angle of the '
              'bracket)',
              'layered': 'both end depths symbolic over the closed range of a stack of 2-3 uniform '
              'layers (inside any layer or exactly on any boundary), 0..2 reflections'},
    'thorough': {'depth pairs': '3 (uniform), 2-3 (graded)', 'layered': '1-4 layers, 0..3 reflections'},
}
OUTSIDE = ["that the root finder is deterministic in its inputs and finds the root (brentq); "
           "attenuation reciprocity of the graded paths (trapezoid nodes traversed in reverse; "
           "see C03)", "layered tracer: the trial trace is replaced by its contract for uniform "
           "layers without total internal reflection (radial distance strictly increasing in the "
           "launch angle, one crossing between scan nodes); which chains survive total internal "
           "reflection, graded layers and the lengths/times of layered solutions are outside "
           "(sections: C18 layered-chain)", "rotation by arbitrary angles for the graded "
           "tracers' azimuth (quarter/half turns and the invariance of rho are decided)"]
ASSUMPTIONS = ["arcsin/arctan2 as points on the unit circle"]
