"""C13 - generators throw uniform, isotropic, correctly weighted neutrinos; count throws.

Encoded: Generator.__init__/get_direction/get_particle_type/get_weights/create_event;
CylindricalGenerator.get_vertex/get_exit_points/volume; RectangularGenerator.get_vertex/
get_exit_points/volume (pyrex/generation.py); Particle.__init__ (pyrex/particle.py).
np.random is replaced by fresh solver variables constrained to the support.
"""
import contextlib
import math
import numpy as np

from symx.explore import Harness
from symx import poly as P


def _mods():
    import pyrex.generation
    import pyrex.particle
    import pyrex.internal_functions
    return [pyrex.generation, pyrex.particle, pyrex.internal_functions]


def _enc():
    import pyrex.generation as g
    from pyrex.particle import Particle
    return [g.Generator.__init__, g.Generator.get_direction, g.Generator.get_particle_type,
            g.Generator.get_weights, g.Generator.create_event,
            g.CylindricalGenerator.get_vertex, g.CylindricalGenerator.get_exit_points,
            g.CylindricalGenerator.volume.fget, g.RectangularGenerator.get_vertex,
            g.RectangularGenerator.get_exit_points, g.RectangularGenerator.volume.fget,
            Particle.__init__]


class HRandom:
    """np.random stand-in for both modes: every draw is the harness input rnd_<k>."""

    def __init__(self, ex):
        self.ex = ex
        self.n = 0
        self.draws = []
        self.hook = None
        self.sym_only = None

    def _u(self):
        self.n += 1
        if self.sym_only is not None and not self.sym_only(self.n):
            v = [0.3, 0.71, 0.12, 0.55][self.n % 4]      # irrelevant draws kept concrete
            self.draws.append(v)
            return v
        v = self.ex.real('rnd_%d' % self.n, 0.0, 1.0, hi_strict=True)
        self.draws.append(v)
        if self.hook is not None:
            self.hook(self.n, v)
        return v

    def random_sample(self, size=None):
        assert size is None
        return self._u()

    def rand(self, *shape):
        assert not shape
        return self._u()

    def uniform(self, low=0.0, high=1.0, size=None):
        lo = np.asarray(low, dtype=object if self.ex.sym else float)
        hi = np.asarray(high, dtype=object if self.ex.sym else float)
        shp = np.broadcast(lo, hi).shape
        if not shp:
            return low + (high - low) * self._u()
        us = [self._u() for _ in range(int(np.prod(shp)))]
        u = self.ex.array(us).reshape(shp)
        return self.ex.array(list(np.ravel(lo))).reshape(shp) + \
            (self.ex.array(list(np.ravel(hi))).reshape(shp) -
             self.ex.array(list(np.ravel(lo))).reshape(shp)) * u


class _NP:
    def __init__(self, real, rnd):
        self._real = real
        self.random = rnd

    def __getattr__(self, n):
        return getattr(self._real, n)


@contextlib.contextmanager
def randomness(ex):
    import pyrex.generation as g
    rnd = HRandom(ex)
    old = g.np
    if ex.sym:
        old_r = g.np.random
        g.np.random = rnd
        try:
            yield rnd
        finally:
            g.np.random = old_r
    else:
        g.np = _NP(np, rnd)
        try:
            yield rnd
        finally:
            g.np = old


class StubInteraction:
    L = None

    def __init__(self, particle, kind=None):
        self.particle = particle
        self.kind = kind
        self.total_interaction_length = StubInteraction.L


class StubEarth:
    def __init__(self, ex):
        self.ex = ex
        self.calls = []

    def slant_depth(self, endpoint, direction, step=500):
        t = self.ex.real('t%d' % len(self.calls), 0, 1e10)
        self.calls.append((endpoint, direction, t))
        return t


def h_vertex_direction(ex):
    """vertices: push-forward identities of the uniform variates (cylinder: r^2/dr^2 = u1,
    azimuth 2 pi u2, z = -dz u3; box: each coordinate affine in its own variate onto the
    declared interval); directions: cos(theta) = 2u-1, azimuth 2 pi u', unit length."""
    import pyrex.generation as g
    StubInteraction.L = 1.0
    with randomness(ex) as rnd:
        dr = ex.real('dr', 1, 1e4)
        dz = ex.real('dz', 1, 3e3)
        cg = g.CylindricalGenerator(dr, dz, 1e9, interaction_model=StubInteraction)
        v = cg.get_vertex()
        u1, u2, u3 = rnd.draws[:3]
        ex.close(v[0] * v[0] + v[1] * v[1], dr * dr * u1, 'cylinder:r^2==dr^2*u', tol=1e-6)
        ex.close(v[2], -dz * u3, 'cylinder:z==-dz*u', tol=0.0)
        ex.close(v[0], dr * np.sqrt(u1) * np.cos(2 * np.pi * u2), 'cylinder:azimuth==2pi*u(x)',
                 tol=1e-9)
        ex.close(v[1], dr * np.sqrt(u1) * np.sin(2 * np.pi * u2), 'cylinder:azimuth==2pi*u(y)',
                 tol=1e-9)
        ex.le(v[0] * v[0] + v[1] * v[1], dr * dr, 'cylinder:inside-radius', tol=1e-6)
        ex.le(v[2], 0.0, 'cylinder:below-surface', tol=0.0)
        ex.le(-dz, v[2], 'cylinder:above-bottom', tol=0.0)
        ex.close(cg.volume, math.pi * dr * dr * dz, 'cylinder:volume', tol=1e-3)
        dx = ex.real('dx', 1, 1e4)
        dy = ex.real('dy', 1, 1e4)
        rg = g.RectangularGenerator(dx, dy, dz, 1e9, interaction_model=StubInteraction)
        k0 = len(rnd.draws)
        w = rg.get_vertex()
        a, b, c = rnd.draws[k0:k0 + 3]
        want = [-dx / 2 + dx * a, -dy / 2 + dy * b, -dz + dz * c]
        if ex.twin == 'centered-z':
            want[2] = -dz / 2 + dz * c
        ex.close(w, want, 'box:each-coordinate-affine-in-its-variate', tol=1e-9)
        ex.close(rg.volume, dx * dy * dz, 'box:volume', tol=1e-3)
        k0 = len(rnd.draws)
        d = rg.get_direction()
        ua, ub = rnd.draws[k0:k0 + 2]
        ex.close(d[2], 2 * ua - 1, 'direction:cos(theta)==2u-1', tol=0.0)
        ex.close(d[0] * d[0] + d[1] * d[1] + d[2] * d[2], 1.0, 'direction:unit-length', tol=1e-9)
        st = np.sqrt(1 - (2 * ua - 1) * (2 * ua - 1))
        ex.close(d[0], st * np.cos(2 * np.pi * ub), 'direction:azimuth==2pi*u(x)', tol=1e-9)
        ex.close(d[1], st * np.sin(2 * np.pi * ub), 'direction:azimuth==2pi*u(y)', tol=1e-9)
        ex.same(len(rnd.draws), 8, 'number-of-variates-drawn')


def h_types(ex):
    """the region of (u_flavour, u_nubar) mapped to each of the six types is the product of
    the cumulative flavour-ratio interval and [0, r_i) resp. [r_i, 1) of the source."""
    import pyrex.generation as g
    from pyrex.particle import Particle
    StubInteraction.L = 1.0
    src = ex.case['source']
    with randomness(ex) as rnd:
        r = [ex.real('r%d' % i, 0, 10) for i in range(3)]
        ex.assume(r[0] + r[1] + r[2] >= 0.01)
        gen = g.RectangularGenerator(1.0, 1.0, 1.0, 1e9, flavor_ratio=r, source=src,
                                     interaction_model=StubInteraction)
        t = gen.get_particle_type()
        uf, un = rnd.draws[:2]
        tot = r[0] + r[1] + r[2]
        nn = {'cosmogenic': [0.78, 0.61, 0.61], 'pgamma': [0.78, 0.61, 0.61],
              'astrophysical': [0.5, 0.5, 0.5], 'pp': [0.5, 0.5, 0.5]}[src]
        T = Particle.Type
        fl = {T.electron_neutrino: 0, T.electron_antineutrino: 0, T.muon_neutrino: 1,
              T.muon_antineutrino: 1, T.tau_neutrino: 2, T.tau_antineutrino: 2}[t]
        anti = t in (T.electron_antineutrino, T.muon_antineutrino, T.tau_antineutrino)
        lo = sum(r[:fl]) / tot if fl else 0.0
        hi = sum(r[:fl + 1]) / tot
        if ex.twin == 'swap-nubar':
            anti = not anti
        ex.le(lo, uf, 'flavour-interval-lower', tol=1e-12)
        if fl < 2:
            ex.lt(uf, hi + 1e-12, 'flavour-interval-upper')
        if anti:
            ex.le(nn[fl], un, 'antineutrino-iff-u>=ratio', tol=0.0)
        else:
            ex.lt(un, nn[fl], 'neutrino-iff-u<ratio')
        ex.same(len(rnd.draws), 2, 'two-variates-per-type')


def _inside_box(ex, dx, dy, dz):
    v = [ex.real('vx', -5e3, 5e3), ex.real('vy', -5e3, 5e3), ex.real('vz', -3e3, 0)]
    ex.assume(v[0] >= -dx / 2)
    ex.assume(v[0] <= dx / 2)
    ex.assume(v[1] >= -dy / 2)
    ex.assume(v[1] <= dy / 2)
    ex.assume(v[2] >= -dz)
    return v


def _unit_dir(ex, axis_zero=()):
    """A direction with the listed components exactly zero and the others non-zero.  Its
    length is left free in [1e-3, sqrt 3]: entry/exit points do not depend on it, and the
    unit-length constraint would only add a quadratic equation to every query."""
    signs = ex.case.get('signs')
    d = []
    for i in range(3):
        if i in axis_zero:
            d.append(0.0)
        elif signs is None:
            d.append(ex.real('d%d' % i, -1, 1))
        elif signs[i] > 0:
            d.append(ex.real('d%d' % i, 1e-3, 1))
        else:
            d.append(ex.real('d%d' % i, -1, -1e-3))
    if signs is None:
        for k in range(3):
            if k not in axis_zero:
                ex.assume(P.sb_or(d[k] >= 1e-3, d[k] <= -1e-3) if ex.sym else abs(d[k]) >= 1e-3)
    return d


class P_:
    def __init__(self, ex, v, d):
        self.vertex = ex.array(v)
        self.direction = ex.array(d)


def h_box_exit(ex):
    """box: entry and exit points lie on the boundary, on the flight line, with the vertex
    between them; no interior vertex/direction is refused; all values finite."""
    import pyrex.generation as g
    StubInteraction.L = 1.0
    dx, dy, dz = ex.case.get('dims', (200.0, 300.0, 100.0))
    gen = g.RectangularGenerator(dx, dy, dz, 1e9, interaction_model=StubInteraction)
    v = _inside_box(ex, dx, dy, dz)
    d = _unit_dir(ex, ex.case.get('zero', ()))
    ex.watch_divisions()
    try:
        en, exi = gen.get_exit_points(P_(ex, v, d))
    except ValueError:
        ex.fail('interior-vertex-never-refused', 'ValueError')
        return
    ex.finite(list(en) + list(exi), 'finite')
    sides = ((-dx / 2, dx / 2), (-dy / 2, dy / 2), (-dz, 0.0))
    for nm, pt in (('entry', en), ('exit', exi)):
        # inside the closed box
        for k in range(3):
            ex.le(sides[k][0], pt[k], nm + '-within-box-lower', tol=1e-9)
            ex.le(pt[k], sides[k][1], nm + '-within-box-upper', tol=1e-9)
        # on the surface: product of distances to the six faces vanishes
        prod = 1.0
        for k in range(3):
            prod = prod * (pt[k] - sides[k][0]) * (pt[k] - sides[k][1])
        ex.close(prod, 0.0, nm + '-on-boundary', tol=1e-3)
        # on the flight line: (pt - v) x d = 0
        w = [pt[k] - v[k] for k in range(3)]
        cr = [w[1] * d[2] - w[2] * d[1], w[2] * d[0] - w[0] * d[2], w[0] * d[1] - w[1] * d[0]]
        ex.close(cr, [0.0, 0.0, 0.0], nm + '-on-flight-line', tol=1e-6)
    s_en = sum((en[k] - v[k]) * d[k] for k in range(3))
    s_ex = sum((exi[k] - v[k]) * d[k] for k in range(3))
    if ex.twin == 'swapped':
        s_en, s_ex = s_ex, s_en
        ex.assume(P.sb_or(s_en > 1e-3, s_ex < -1e-3) if ex.sym else True)
    ex.le(s_en, 0.0, 'entry-behind-vertex', tol=1e-9)
    ex.le(0.0, s_ex, 'exit-ahead-of-vertex', tol=1e-9)


def h_cyl_exit(ex):
    """cylinder: same obligations (side wall, top and bottom caps)."""
    import pyrex.generation as g
    StubInteraction.L = 1.0
    dr, dz = ex.case.get('dims', (100.0, 50.0))
    gen = g.CylindricalGenerator(dr, dz, 1e9, interaction_model=StubInteraction)
    v = [ex.real('vx', -dr, dr), ex.real('vy', -dr, dr), ex.real('vz', -dz, 0)]
    ex.assume(v[0] * v[0] + v[1] * v[1] <= dr * dr - 1e-3)
    zero = ex.case.get('zero', ())
    d = _unit_dir(ex, zero)
    ex.watch_divisions()
    try:
        en, exi = gen.get_exit_points(P_(ex, v, d))
    except ValueError:
        ex.fail('interior-vertex-never-refused', 'ValueError')
        return
    ex.finite(list(en) + list(exi), 'finite')
    for nm, pt in (('entry', en), ('exit', exi)):
        r2 = pt[0] * pt[0] + pt[1] * pt[1]
        ex.le(r2, dr * dr, nm + '-within-radius', tol=1e-3)
        ex.le(pt[2], 0.0, nm + '-below-surface', tol=1e-9)
        ex.le(-dz, pt[2], nm + '-above-bottom', tol=1e-9)
        ex.close((r2 - dr * dr) * pt[2] * (pt[2] + dz), 0.0, nm + '-on-boundary', tol=1.0)
        w = [pt[k] - v[k] for k in range(3)]
        cr = [w[1] * d[2] - w[2] * d[1], w[2] * d[0] - w[0] * d[2], w[0] * d[1] - w[1] * d[0]]
        ex.close(cr, [0.0, 0.0, 0.0], nm + '-on-flight-line', tol=1e-4)
    s_en = sum((en[k] - v[k]) * d[k] for k in range(3))
    s_ex = sum((exi[k] - v[k]) * d[k] for k in range(3))
    if ex.twin == 'swapped':
        s_en, s_ex = s_ex, s_en
        ex.assume(P.sb_or(s_en > 1e-2, s_ex < -1e-2) if ex.sym else True)
    ex.le(s_en, 0.0, 'entry-behind-vertex', tol=1e-6)
    ex.le(0.0, s_ex, 'exit-ahead-of-vertex', tol=1e-6)


def h_weights(ex):
    """survival = exp(-column depth / L) for the chord behind the vertex; interaction =
    (in-ice chord / L_i) exp(-distance travelled in ice / L_i), L_i = L/0.92/100; the same
    for every particle in every order of calls (no state carried between particles)."""
    import pyrex.generation as g
    from pyrex.particle import Particle
    earth = StubEarth(ex)
    pts = {}

    class G(g.RectangularGenerator):
        def get_exit_points(self, particle):
            return pts[id(particle)]

    gen = G(100.0, 100.0, 100.0, 1e9, interaction_model=StubInteraction, earth_model=earth)
    order = ex.case.get('types', (12, -12))
    res = []
    for j, pid in enumerate(order):
        L = ex.real('L%d' % j, 1e3, 1e12)
        StubInteraction.L = L
        v = [ex.real('vx%d' % j, -50, 50), ex.real('vy%d' % j, -50, 50), ex.real('vz%d' % j, -100, 0)]
        p = Particle(pid, v, (0.0, 0.6, -0.8), 1e5, interaction_model=StubInteraction)
        en = [ex.real('en%d_%d' % (j, k), -200, 200) for k in range(3)]
        xi = [ex.real('xi%d_%d' % (j, k), -200, 200) for k in range(3)]
        pts[id(p)] = (ex.array(en), ex.array(xi))
        sw, iw = gen.get_weights(p)
        end, dirn, t = earth.calls[-1]
        ex.close(end, v, 'slant-depth-from-the-vertex', tol=0.0)
        ex.close(dirn, [0.0, -0.6, 0.8], 'slant-depth-backwards-along-the-flight', tol=1e-12)
        want_s = np.exp(-(t / L))
        if ex.twin == 'no-minus':
            want_s = np.exp(t / L)
        ex.close(sw, want_s, 'survival==exp(-t/L)', tol=1e-9)
        Li = L / 0.92 / 100
        l_ice = np.sqrt(sum((xi[k] - en[k]) * (xi[k] - en[k]) for k in range(3)))
        l_tr = np.sqrt(sum((v[k] - en[k]) * (v[k] - en[k]) for k in range(3)))
        ex.close(iw, l_ice / Li * np.exp(-(l_tr / Li)), 'interaction==(l_ice/L_i)exp(-l_travel/L_i)',
                 tol=1e-9)
    ex.same(len(earth.calls), len(order), 'one-slant-depth-per-particle')


def h_shadow(ex):
    """with shadowing a throw is accepted iff u < survival weight; the accepted particle has
    survival weight 1; count increases by one per throw incl. rejected ones; the energy
    source is asked once per throw; without shadowing nothing is rejected."""
    import pyrex.generation as g
    shadow = ex.case['shadow']
    nrej = ex.case['rejections']
    earth = StubEarth(ex)
    calls = {'E': 0}

    def energy():
        calls['E'] += 1
        return 1e6 * calls['E']
    StubInteraction.L = 1e6
    with randomness(ex) as rnd:
        class G(g.RectangularGenerator):
            def get_exit_points(self, particle):
                return (np.array([0.0, 0.0, -1.0]), np.array([0.0, 0.0, 0.0]))
        gen = G(100.0, 100.0, 100.0, energy, shadow=shadow, interaction_model=StubInteraction,
                earth_model=earth)
        c0 = gen.count
        # per throw: 3 vertex + 2 direction + 2 type draws (+ 1 shadow draw)
        per = 8 if shadow else 7

        def hook(n, u):
            # bound the recursion: from throw nrej on, the shadow draw is assumed to accept
            if shadow and n % per == 0 and n // per > nrej:
                t = earth.calls[-1][2]
                ex.assume(u < np.exp(-(t / 1e6)))
        rnd.hook = hook
        if shadow:
            rnd.sym_only = lambda n: n % per == 0
        ev = gen.create_event()
        throws = gen.count - c0
        part = list(ev)[0]
        if shadow:
            # identify, per throw, the shadow draw and its survival weight
            for k in range(throws):
                u = rnd.draws[k * per + 7]
                t = earth.calls[k][2]
                sw = np.exp(-(t / 1e6))
                if k < throws - 1:
                    ex.le(sw, u, 'rejected-iff-u>=survival', tol=1e-9)
                else:
                    ex.lt(u, sw + 1e-9, 'accepted-iff-u<survival')
            ex.close(part.survival_weight, 1.0 if ex.twin != 'keep' else 0.5,
                     'accepted-particle-has-survival-weight-1', tol=0.0)
        else:
            ex.same(throws, 1, 'no-rejection-without-shadow')
            ex.close(part.survival_weight, np.exp(-(earth.calls[0][2] / 1e6)),
                     'unshadowed-particle-keeps-its-survival-weight', tol=1e-9)
        ex.same(calls['E'], throws, 'energy-source-asked-once-per-throw')
        ex.same(len(earth.calls), throws, 'one-weight-computation-per-throw')
        ex.same(len(rnd.draws), per * throws, 'variates-per-throw')
        ex.close(part.energy, 1e6 * throws, 'energy-of-the-accepted-throw', tol=0.0)
        ex.note('throws=%d' % throws)


ZEROS = [(0,), (1,), (2,), (0, 1), (0, 2), (1, 2)]
import itertools as _it
OCT = [{'zero': (), 'signs': sg} for sg in _it.product((1, -1), repeat=3)]
HARNESSES = [
    Harness('vertex-direction', h_vertex_direction, _mods, encodes=_enc, twins=('centered-z',),
            budget={'quick': {'query_timeout_ms': 60000}}),
    Harness('types', h_types, _mods, encodes=_enc, twins=('swap-nubar',),
            cases={'quick': [{'source': s} for s in ('cosmogenic', 'astrophysical')],
                   'thorough': [{'source': s} for s in ('cosmogenic', 'astrophysical', 'pgamma',
                                                        'pp')]}),
    Harness('box-exit-points', h_box_exit, _mods, encodes=_enc, twins=('swapped',),
            cases={'quick': [{'zero': z} for z in ZEROS] + [OCT[1], OCT[6]],
                   'thorough': [{'zero': z, 'dims': dm} for z in ZEROS
                                for dm in ((200.0, 300.0, 100.0), (10.0, 10.0, 2000.0))] + OCT},
            budget={'quick': {'max_paths': 4000, 'wall_s': 400, 'query_timeout_ms': 20000},
                    'thorough': {'max_paths': 20000, 'wall_s': 1500}}),
    Harness('cylinder-exit-points', h_cyl_exit, _mods, encodes=_enc, twins=('swapped',),
            cases={'quick': [{'zero': z} for z in ((0, 2),)] +
                   # tracks inside the y-z / x-z plane (the code's direction[0]==0 branch and its
                   # mirror), one sign pattern each in the quick tier
                   [{'zero': (0,), 'signs': (1, 1, -1)}, {'zero': (0,), 'signs': (1, -1, 1)},
                    {'zero': (1,), 'signs': (1, 1, -1)}],
                   'thorough': [{'zero': z} for z in ((0,), (0, 2), (2,), (1,), (1, 2))]},
            budget={'quick': {'max_paths': 2000, 'wall_s': 150, 'query_timeout_ms': 20000},
                    'thorough': {'max_paths': 8000, 'wall_s': 1500, 'query_timeout_ms': 60000}},
            required=False),
    Harness('weights', h_weights, _mods, encodes=_enc, twins=('no-minus',),
            cases={'quick': [{'types': (12, -12)}, {'types': (-14, 14, 16)}],
                   'thorough': [{'types': t} for t in ((12, -12), (-14, 14, 16), (16, 16),
                                                       (-12, 12, -12))]}),
    Harness('shadow-count', h_shadow, _mods, encodes=_enc, twins=('keep',),
            cases={'quick': [{'shadow': True, 'rejections': 2, '_twins': 1},
                             {'shadow': False, 'rejections': 0}],
                   'thorough': [{'shadow': True, 'rejections': 3, '_twins': 1},
                                {'shadow': False, 'rejections': 0}]},
            budget={'quick': {'max_paths': 200}, 'thorough': {'max_paths': 500}}),
]

def _list_harness():
    """ListGenerator (C12's harness): the k-th draw is events[(k-1) mod n] when looping,
    StopIteration exactly from draw n+1 otherwise, count = draws + the offset a user assigned
    to `count` (symbolic integer): cycling/stopping never depends on the assigned count"""
    from harness import C12
    h = [x for x in C12.HARNESSES if x.name == 'list-generator'][0]
    return Harness('list-generator', h.fn, h.modules, cases=h.cases, twins=h.twins,
                   encodes=h.encodes, budget=h.budget, doc=_list_harness.__doc__)


HARNESSES.append(_list_harness())

BOUNDS = {
    'quick': {'volume dimensions': 'symbolic (vertex/direction harness); fixed 200x300x100 box '
              'and r=100,h=50 cylinder for the exit points', 'vertex': 'anywhere in the closed '
              'volume, symbolic', 'direction': 'any unit vector, incl. every subset of '
              'components exactly zero (box) / the x==0 and z==0 classes (cylinder)',
              'variates': 'every np.random draw is a free variable in [0,1)',
              'shadow': '<= 2 rejections', 'flavour ratios': 'symbolic non-negative'},
    'thorough': {'shadow': '<= 3 rejections', 'box': 'two shapes', 'cylinder': 'all six '
                 'zero-classes'},
}
OUTSIDE = ["statistical quality and independence of numpy's generator (the stub's contract)",
           "FileGenerator (C12)", "cross sections behind "
           "total_interaction_length (C14)", "slant depth (C15)"]
ASSUMPTIONS = ["np.random.* return independent variates uniform on [0,1): only the support is "
               "used; 'uniform in volume/solid angle' is stated as push-forward identities"]
