"""C04 - signals keep times and values aligned, copy independently, combine pointwise.

Encoded: Signal.__init__/__add__/__radd__/__mul__/__rmul__/__imul__/__truediv__/
__itruediv__/copy/value_type/dt/with_times/shift and the EmptySignal / FunctionSignal
overrides (pyrex/signals.py); get_from_enum (pyrex/internal_functions.py).
"""
import numpy as np

from symx.explore import Harness
from symx import poly as P
from harness.common import UFun, shares, snapshot


def _mods():
    import pyrex.signals
    import pyrex.internal_functions
    return [pyrex.signals, pyrex.internal_functions]


def _enc():
    from pyrex.signals import Signal, EmptySignal, FunctionSignal
    from pyrex.internal_functions import get_from_enum
    return [Signal.__init__, Signal.__add__, Signal.__radd__, Signal.__mul__, Signal.__rmul__,
            Signal.__imul__, Signal.__truediv__, Signal.__itruediv__, Signal.copy,
            Signal.with_times, Signal.shift, Signal.value_type.fset,
            EmptySignal.__init__, EmptySignal.__add__, EmptySignal.copy, EmptySignal.with_times,
            FunctionSignal.__init__, FunctionSignal.__add__, FunctionSignal.__mul__,
            FunctionSignal.__rmul__, FunctionSignal.__imul__, FunctionSignal.__truediv__,
            FunctionSignal.__itruediv__, FunctionSignal.copy, FunctionSignal.with_times,
            FunctionSignal.shift, FunctionSignal.values.fget, FunctionSignal._full_times,
            FunctionSignal._value_window, get_from_enum]


TOL = 1e-12


def _zero_response(f):
    return 0.0 * f


def fs_independent(ex, R, S_, e, tag):
    """Function-backed signals: the derived object R shares no mutable internals with S_.
    Structural (no inner list is shared) and behavioural (filtering / re-buffering R leaves
    the re-evaluated values of S_ unchanged)."""
    from pyrex.signals import FunctionSignal
    if not isinstance(R, FunctionSignal) or not isinstance(S_, FunctionSignal):
        return
    for nm in ('_functions', '_t0s', '_buffers', '_factors', '_filters'):
        ex.true(getattr(R, nm) is not getattr(S_, nm), 'no-shared-list-%s-%s' % (nm, tag))
    for nm in ('_buffers', '_filters'):
        ok = all(x is not y for x in getattr(R, nm) for y in getattr(S_, nm))
        ex.true(ok, 'no-shared-inner-list-%s-%s' % (nm, tag))
    if len(S_.times) < 2:
        return
    nb = [list(b) for b in S_._buffers]
    nf = [len(f) for f in S_._filters]
    R.set_buffers(leading=1.0, trailing=2.0, force=True)
    R.filter_frequencies(_zero_response)
    ex.same([list(b) for b in S_._buffers], nb, 'buffers-untouched-by-derived-%s' % tag)
    ex.same([len(f) for f in S_._filters], nf, 'filters-untouched-by-derived-%s' % tag)
    S_.times = S_.times          # public attribute assignment: forces re-evaluation
    ex.close(S_.values, e, 'values-untouched-by-filtering-derived-%s' % tag, tol=1e-9)


def h_construct(ex):
    """len(values)==len(times) after construction (zero padded / truncated); the signal
    owns its arrays (later changes of the caller's arrays do not reach it)."""
    from pyrex.signals import Signal
    n, m = ex.case['n'], ex.case['m']
    ts = ex.reals('t', n, -1e6, 1e6)
    vs = ex.reals('v', m, -1e3, 1e3)
    t_in = ex.array(ts) if n else np.array([])
    v_in = ex.array(vs) if m else np.array([])
    s = Signal(t_in, v_in)
    ex.same(len(s.values), n, 'one-value-per-sample')
    ex.same(len(s.times), n, 'times-length')
    want = [vs[i] if i < m else 0.0 for i in range(n)]
    if ex.twin == 'pad-one':
        want = [vs[i] if i < m else 1.0 for i in range(n)]
    if n:
        ex.close(s.values, want, 'values-padded-or-truncated', tol=0.0)
        ex.close(s.times, ts, 'times-stored', tol=0.0)
    ex.true(not shares(s.times, t_in), 'times-not-aliased-to-argument')
    ex.true(not shares(s.values, v_in), 'values-not-aliased-to-argument')
    # list inputs as well
    s2 = Signal(list(ts), list(vs))
    ex.same(len(s2.values), n, 'one-value-per-sample(list)')
    if n:
        ex.close(s2.values, [vs[i] if i < m else 0.0 for i in range(n)],
                 'values-padded-or-truncated(list)', tol=0.0)


TYPES = [None, 'undefined', 'voltage', 'field', 'power', 0, 1, 2, 3, 'unknown']


def _canon(t):
    from pyrex.signals import Signal
    T = Signal.Type
    return {None: T.undefined, 'undefined': T.undefined, 'unknown': T.undefined, 0: T.undefined,
            'voltage': T.voltage, 1: T.voltage, 'field': T.field, 2: T.field,
            'power': T.power, 3: T.power}[t]


def _make(ex, kind, times, vals, vt, tag):
    """Build an operand of the given class on the given times."""
    from pyrex.signals import Signal, EmptySignal, FunctionSignal
    if kind == 'S':
        return Signal(ex.array(times), ex.array(vals), value_type=vt), list(vals)
    if kind == 'E':
        return EmptySignal(ex.array(times), value_type=vt), [0.0] * len(times)
    g = UFun(ex, 'g' + tag)
    f = FunctionSignal(ex.array(times), g, value_type=vt)
    return f, [g(t) for t in times]


def h_add(ex):
    """addition is pointwise; refused exactly when the time grids differ or both types are
    defined and different; undefined type / EmptySignal neutral; result shares nothing."""
    from pyrex.signals import Signal, EmptySignal, FunctionSignal
    n = ex.case['n']
    ka, kb = ex.case['kinds']
    ta_t, tb_t = ex.case['types']
    ts = ex.reals('t', n, -1e6, 1e6)
    us = ex.reals('u', n, -1e6, 1e6)
    # time grids need not be sorted or uniform for addition; they are arbitrary reals
    va = ex.reals('a', n, -1e3, 1e3)
    vb = ex.reals('b', n, -1e3, 1e3)
    A_, ea = _make(ex, ka, ts, va, ta_t, 'A')
    B_, eb = _make(ex, kb, us, vb, tb_t, 'B')
    same_times = P.sb_and(*[P.cmp(t, u, '==') for t, u in zip(ts, us)]) if ex.sym else \
        all(t == u for t, u in zip(ts, us))
    ca, cb = _canon(ta_t), _canon(tb_t)
    und = Signal.Type.undefined
    types_ok = (ca == und or cb == und or ca == cb)
    try:
        R = A_ + B_
        raised = False
    except ValueError:
        raised = True
    if raised:
        # refused: must be justified by different grids or incompatible types
        if types_ok:
            ex.true(P.sb_not(same_times) if ex.sym else not same_times,
                    'refusal-only-for-different-times')
        ex.note('refused')
        return
    ex.note('accepted')
    ex.true(same_times, 'accepted-only-for-identical-times')
    ex.same(types_ok, True, 'accepted-only-for-compatible-types')
    want_t = cb if ca == und else ca
    ex.same(R.value_type, want_t, 'result-type')
    want = [x + y for x, y in zip(ea, eb)]
    if ex.twin == 'minus':
        want = [x - y for x, y in zip(ea, eb)]
    ex.close(R.values, want, 'pointwise-sum', tol=TOL)
    ex.close(R.times, ts, 'result-times', tol=0.0)
    ex.same(len(R.values), n, 'one-value-per-sample')
    # independence: result shares no arrays with the operands
    for nm, X in (('A', A_), ('B', B_)):
        ex.true(not shares(R.times, X.times), 'result-times-not-aliased-' + nm)
        ex.true(R is not X, 'result-is-new-object-' + nm)
    # mutate the result in place; operands must not move
    before_a, before_b = snapshot(A_.values), snapshot(B_.values)
    bt_a = snapshot(A_.times)
    R.shift(5.0)
    R *= 3.0
    ex.close(A_.values, before_a, 'operand-A-untouched-by-result-mutation', tol=0.0)
    ex.close(B_.values, before_b, 'operand-B-untouched-by-result-mutation', tol=0.0)
    ex.close(A_.times, bt_a, 'operand-A-times-untouched', tol=0.0)
    fs_independent(ex, R, A_, ea, 'add-A')
    fs_independent(ex, R, B_, eb, 'add-B')


def h_radd_scale(ex):
    """0 + s is s (and nothing else is); scaling multiplies every value; *, / return new
    independent objects, *=, /= act in place."""
    from pyrex.signals import Signal
    n = ex.case['n']
    kind = ex.case['kind']
    ts = ex.reals('t', n, -1e6, 1e6)
    vs = ex.reals('v', n, -1e3, 1e3)
    k = ex.real('k', -100, 100)
    ex.assume(k != 0)
    S_, e = _make(ex, kind, ts, vs, ex.case.get('vt'), 'A')
    ex.true((0 + S_) is S_, 'zero-plus-signal-is-signal')
    ex.true(sum([S_]) is S_, 'sum-of-one-is-signal')
    ex.raises(lambda: 1 + S_, (TypeError,), 'nonzero-plus-signal-refused')
    ex.raises(lambda: S_ + 1, (TypeError,), 'signal-plus-number-refused')
    for nm, R, want in (('mul', S_ * k, [x * k for x in e]), ('rmul', k * S_, [k * x for x in e]),
                        ('div', S_ / k, [x / k for x in e])):
        if ex.twin == 'square' and nm == 'mul':
            want = [x * k * k for x in e]
        ex.close(R.values, want, 'scaled-values-' + nm, tol=1e-9)
        ex.close(R.times, ts, 'scaled-times-' + nm, tol=0.0)
        ex.true(R is not S_, 'scaled-is-new-' + nm)
        ex.true(not shares(R.times, S_.times), 'scaled-times-not-aliased-' + nm)
        ex.same(R.value_type, S_.value_type, 'scaled-type-' + nm)
        before = snapshot(S_.values)
        R.shift(1.0)
        R *= 2.0
        ex.close(S_.values, before, 'operand-untouched-' + nm, tol=0.0)
        ex.close(S_.times, ts, 'operand-times-untouched-' + nm, tol=0.0)
        fs_independent(ex, R, S_, e, nm)
    C_ = S_.copy()
    ex.true(C_ is not S_, 'copy-is-new')
    ex.same(type(C_), type(S_), 'copy-same-class')
    ex.close(C_.values, e, 'copy-values', tol=TOL)
    ex.true(not shares(C_.times, S_.times), 'copy-times-not-aliased')
    if kind != 'F':
        ex.true(not shares(C_.values, S_.values), 'copy-values-not-aliased')
    C_.shift(2.0)
    C_ *= 5.0
    ex.close(S_.times, ts, 'original-times-untouched-by-copy-mutation', tol=0.0)
    ex.close(S_.values, e, 'original-values-untouched-by-copy-mutation', tol=TOL)
    fs_independent(ex, C_, S_, e, 'copy')
    # in place
    T_ = S_
    T_ *= k
    ex.true(T_ is S_, 'imul-in-place')
    ex.close(S_.values, [x * k for x in e], 'imul-values', tol=1e-9)
    T_ /= k
    ex.true(T_ is S_, 'itruediv-in-place')
    ex.close(S_.values, e, 'imul-then-idiv-roundtrip', tol=1e-6)


def h_with_times(ex):
    """re-gridding a sampled signal: stored value at shared times, linear interpolation
    between samples, zero outside; empty -> zeros; function-backed -> function re-evaluated
    exactly; the result shares nothing with the operand or the argument."""
    from pyrex.signals import Signal, EmptySignal, FunctionSignal
    n, q = ex.case['n'], ex.case['q']
    kind = ex.case['kind']
    t0 = ex.real('t0', -1e3, 1e3)
    if kind == 'F':
        # function-backed: uniform grids with concrete steps (buffer sample counts are
        # int(buffer/dt): the offset stays symbolic, the counts enumerate 0..few)
        dt = ex.case.get('dt', 1.0)
        qd = ex.case.get('qd', 0.5)
        ts = [t0 + i * dt for i in range(n)]
        q0 = ex.real('q0', -1e3 - 2, 1e3 + 4)
        ex.assume(q0 - t0 >= -2 * dt)
        ex.assume(q0 - t0 <= (n + 1) * dt)
        qs = [q0 + j * qd for j in range(q)]
    else:
        steps = ex.reals('d', n - 1, 1e-3, 10.0)
        ts = [t0]
        for d in steps:
            ts.append(ts[-1] + d)
        # query grid: increasing as well
        q0 = ex.real('q0', -2e3, 2e3)
        qsteps = ex.reals('e', q - 1, 1e-3, 10.0)
        qs = [q0]
        for d in qsteps:
            qs.append(qs[-1] + d)
    vs = ex.reals('v', n, -1e3, 1e3)
    S_, e = _make(ex, kind, ts, vs, 'voltage', 'A')
    q_in = ex.array(qs)
    R = S_.with_times(q_in)
    ex.same(len(R.values), q, 'one-value-per-sample')
    ex.close(R.times, qs, 'new-times', tol=0.0)
    ex.same(R.value_type, S_.value_type, 'type-kept')
    ex.true(R is not S_, 'new-object')
    if kind == 'S':
        ex.same(type(R), Signal, 'class')
        for j, x in enumerate(qs):
            want = 0.0
            for i in range(n - 1):
                inside = P.sb_and(x >= ts[i], x < ts[i + 1]) if ex.sym else (ts[i] <= x < ts[i + 1])
                lin = vs[i] + (vs[i + 1] - vs[i]) * (x - ts[i]) / (ts[i + 1] - ts[i])
                want = P.ite(inside, lin, want) if ex.sym else (lin if inside else want)
            last = (x == ts[-1])
            want = P.ite(last, vs[-1], want) if ex.sym else (vs[-1] if last else want)
            if ex.twin == 'hold':
                out = (x > ts[-1])
                want = P.ite(out, vs[-1], want) if ex.sym else (vs[-1] if out else want)
            ex.close(R.values[j], want, 'interp-three-cases', tol=1e-6)
            # at shared sample times the stored value exactly
            for i in range(n):
                with ex.under(x == ts[i]) as feasible:
                    if feasible:
                        ex.close(R.values[j], vs[i], 'stored-value-at-shared-time', tol=1e-9)
    elif kind == 'E':
        ex.same(type(R), EmptySignal, 'class')
        ex.close(R.values, [0.0] * q, 'empty-stays-zero', tol=0.0)
    else:
        ex.same(type(R), FunctionSignal, 'class')
        g = S_._functions[0]
        ex.close(R.values, [g(x) for x in qs], 'function-re-evaluated-exactly', tol=TOL)
    ex.true(not shares(R.times, S_.times), 'result-times-not-aliased-to-operand')
    # the argument array must not be captured: shifting the result must not move it
    R.shift(7.0)
    ex.close(q_in, qs, 'argument-untouched-by-result-shift', tol=0.0)
    ex.close(S_.times, ts, 'operand-times-untouched', tol=0.0)
    ex.close(S_.values, e, 'operand-values-untouched', tol=TOL)
    fs_independent(ex, R, S_, e, 'with-times')


def _add_cases(ns, kinds, types):
    out = []
    for n in ns:
        for k in kinds:
            for t in types:
                out.append({'n': n, 'kinds': k, 'types': t})
    return out


K3 = ['S', 'E', 'F']
ALLK = [(a, b) for a in K3 for b in K3]
T_Q = [(None, None), ('voltage', None), (None, 'field'), ('voltage', 'voltage'),
       ('voltage', 'field'), (1, 'voltage'), ('power', 3), (0, 'power')]
T_ALL = [(a, b) for a in TYPES for b in TYPES]

HARNESSES = [
    Harness('construct', h_construct, _mods, encodes=_enc, twins=('pad-one',),
            cases={'quick': [{'n': 3, 'm': 1, '_twins': 1}] +
                   [{'n': n, 'm': m} for n in range(0, 4) for m in range(0, 4)],
                   'thorough': [{'n': 3, 'm': 1, '_twins': 1}] +
                   [{'n': n, 'm': m} for n in range(0, 6) for m in range(0, 6)]}),
    Harness('add', h_add, _mods, encodes=_enc, twins=('minus',),
            cases={'quick': [{'n': 2, 'kinds': ('S', 'S'), 'types': (None, None), '_twins': 1}] +
                   _add_cases([2], ALLK, T_Q[:5]) + _add_cases([1, 3], [('S', 'S'), ('F', 'S'),
                                                                         ('E', 'F')], T_Q[:2]),
                   'thorough': [{'n': 2, 'kinds': ('S', 'S'), 'types': (None, None), '_twins': 1}]
                   + _add_cases([1, 2, 3], ALLK, T_ALL) + _add_cases([4], ALLK, T_Q)}),
    Harness('radd-scale-copy', h_radd_scale, _mods, encodes=_enc, twins=('square',),
            cases={'quick': [{'n': 2, 'kind': 'S', '_twins': 1}] +
                   [{'n': n, 'kind': k, 'vt': vt} for n in (1, 2, 3) for k in K3
                    for vt in (None, 'field')],
                   'thorough': [{'n': 2, 'kind': 'S', '_twins': 1}] +
                   [{'n': n, 'kind': k, 'vt': vt} for n in (1, 2, 3, 4, 5) for k in K3
                    for vt in TYPES]}),
    Harness('with-times', h_with_times, _mods, encodes=_enc, twins=('hold',),
            cases={'quick': [{'n': 2, 'q': 1, 'kind': 'S', '_twins': 1}] +
                   [{'n': n, 'q': q, 'kind': k} for (n, q) in ((2, 1), (2, 2), (3, 2))
                    for k in ('S', 'E')] +
                   [{'n': n, 'q': q, 'kind': 'F', 'qd': qd} for (n, q) in ((2, 2), (3, 2), (3, 3))
                    for qd in (0.5, 1.0)] + [{'n': 2, 'q': 1, 'kind': 'F'}],
                   'thorough': [{'n': 2, 'q': 1, 'kind': 'S', '_twins': 1}] +
                   [{'n': n, 'q': q, 'kind': k} for n in (2, 3, 4) for q in (1, 2, 3)
                    for k in ('S', 'E')] +
                   [{'n': n, 'q': q, 'kind': 'F', 'qd': qd, 'dt': dt} for n in (2, 3, 4)
                    for q in (1, 2, 3, 4) for qd in (0.5, 1.0) for dt in (1.0, 0.7)]},
            # (0.3-step target grids: > 25 min or > 7 GB per case - outside the thorough family)
            budget={'quick': {'max_paths': 3000, 'wall_s': 300},
                    'thorough': {'max_paths': 20000, 'wall_s': 1500}}),
]

BOUNDS = {
    'quick': {'lengths': 'times/values 0..3 x 0..3 (construct); n = 1..3 (add, scale); '
                         'with_times: 2..3 samples re-gridded onto 1..2 points',
              'times': 'arbitrary reals in [-1e6,1e6] (add: unsorted allowed)',
              'values': '[-1e3,1e3]', 'classes': 'all 9 ordered pairs of Signal/EmptySignal/'
              'FunctionSignal (generating function uninterpreted)',
              'types': '5 of the 100 ordered pairs of type spellings'},
    'thorough': {'lengths': '0..5 x 0..5; n = 1..4; with_times 2..4 onto 1..3',
                 'types': 'all 100 ordered pairs of {None, names, ints}'},
}
OUTSIDE = ["subclasses of FunctionSignal (Askaryan, thermal noise) are exercised in C06/C07/C17",
           "resample (scipy.signal.resample is concrete C code)", "lengths beyond the bound"]
ASSUMPTIONS = ["np.interp follows its documentation (shim compared with numpy every run)"]
