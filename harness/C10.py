"""C10 - the event kernel hands each antenna one time-aligned signal per ray solution.

Encoded: EventKernel.__init__/event (pyrex/kernel.py) with the real UniformRayTracer /
UniformRayTracePath (pyrex/ray_tracing.py), real Signal/EmptySignal, and the call
signatures of every shipped path, Askaryan and generator class.
"""
import inspect
import numpy as np

from symx.explore import Harness
from symx import poly as P


def _mods():
    import pyrex.kernel
    import pyrex.ray_tracing
    import pyrex.signals
    import pyrex.internal_functions
    import pyrex.ice_model
    return [pyrex.kernel, pyrex.ray_tracing, pyrex.signals, pyrex.internal_functions,
            pyrex.ice_model]


def _enc():
    from pyrex.kernel import EventKernel as K
    import pyrex.ray_tracing as rt
    return [K.__init__, K.event, rt.UniformRayTracer.solutions.fget, rt.UniformRayTracer.exists.fget,
            rt.UniformRayTracePath.propagate, rt.UniformRayTracePath.tof.fget]


def _off(case, k, i, j):
    d = case.get('offcone', {})
    return bool(d.get((k, i, j), d.get(str((k, i, j)), False)))


class StubPart:
    def __init__(self, ex, k, vertex, direction, sw, iw, forced=None):
        self.k = k
        self.vertex = ex.array(vertex) if ex.sym else np.array(vertex, dtype=float)
        self.direction = ex.array(direction) if ex.sym else np.array(direction, dtype=float)
        self.survival_weight = sw
        self.interaction_weight = iw
        self._forced = forced

    @property
    def weight(self):
        if self._forced is not None:
            return self._forced
        w = 1
        if self.survival_weight is not None:
            w = w * self.survival_weight
        if self.interaction_weight is not None:
            w = w * self.interaction_weight
        return w


class StubGen:
    def __init__(self, events, counts):
        self.events = list(events)
        self.counts = list(counts)
        self.count = 0
        self.i = 0

    def create_event(self):
        ev = self.events[self.i]
        self.count += self.counts[self.i]
        self.i += 1
        return ev


class StubPath:
    def __init__(self, ex, tag, emitted, received):
        self.tag = tag
        self.tof = ex.real('tof_' + tag, 1e-9, 1e-4)
        self.path_length = ex.real('len_' + tag, 1.0, 1e4)
        self.emitted_direction = np.array(emitted, dtype=float)
        self.received_direction = np.array(received, dtype=float)
        self.calls = []
        self.ex = ex

    def propagate(self, signal=None, polarization=None, attenuation_interpolation=None):
        from pyrex.signals import Signal
        self.calls.append((signal, polarization, attenuation_interpolation))
        s1 = Signal(signal.times + self.tof, signal.values * 0.5, value_type=signal.value_type)
        s2 = Signal(signal.times + self.tof, signal.values * 0.25, value_type=signal.value_type)
        return (s1, s2), (np.array([1.0, 0.0, 0.0]), np.array([0.0, 1.0, 0.0]))


class StubTracer:
    table = {}
    made = []

    def __init__(self, from_point, to_point, ice_model=None):
        self.key = (float(from_point[1]), float(to_point[0]))
        self.paths = StubTracer.table.get(self.key, [])
        StubTracer.made.append(self)

    @property
    def exists(self):
        return len(self.paths) > 0

    @property
    def solutions(self):
        return list(self.paths)


class StubAnt:
    def __init__(self, i):
        self.position = np.array([10.0 * (i + 1), 0.0, -100.0])
        self.received = []

    def receive(self, signal, direction=None, polarization=None, force_real=False):
        self.received.append((signal, direction, polarization))


class StubWriter:
    is_open = True
    has_detector = True

    def __init__(self):
        self.adds = []
        self.meta = []

    def create_analysis_metadataset(self, *a, **k):
        pass

    def add_analysis_metadata(self, name, meta):
        self.meta.append(meta)

    def add(self, **kw):
        self.adds.append(kw)


class StubIce:
    def index(self, z):
        return 1.78


def h_kernel(ex):
    """one receive per (passing particle, antenna, ray solution), on signal_times + tof;
    weight cuts as documented (scalar and pair form, None weights, boundary equalities);
    the off-cone cut and a refusing signal model only swap in an EmptySignal; ray paths and
    polarizations handed to the writer line up with the received signals; events_thrown is
    the generator-count delta; the trigger result is the supplied function(s) on the
    antennas."""
    from pyrex.kernel import EventKernel
    from pyrex.signals import Signal, EmptySignal
    case = ex.case
    nant = case.get('nant', 2)
    nsol = case['nsol']                    # per particle, per antenna: number of solutions
    wm_kind = case['weight_min']
    trig_kind = case['triggers']
    times = ex.const_array([0.0, 1e-9, 2e-9])
    ants = [StubAnt(i) for i in range(nant)]
    parts = []
    StubTracer.table = {}
    StubTracer.made = []
    allpaths = {}
    theta_c = np.arccos(1 / 1.78)
    for k, sols in enumerate(nsol):
        sw = ex.real('sw%d' % k, 0, 1) if case.get('sw_none', ()) and k in case['sw_none'] \
            else ex.real('sw%d' % k, 0, 1)
        if k in case.get('sw_none', ()):
            sw = None
        iw = ex.real('iw%d' % k, 0, 1)
        p = StubPart(ex, k, (0.0, 1.0 * k, -200.0), (0.0, 0.0, 1.0), sw, iw)
        parts.append(p)
        for i in range(nant):
            lst = []
            for j in range(sols[i]):
                # emitted direction at a concrete angle from the particle direction (0,0,1):
                # on the Cherenkov cone, or far off it
                off = _off(case, k, i, j)
                ang = theta_c + (1.2 if off else 0.01 * (j + 1))
                em = (np.sin(ang), 0.0, np.cos(ang))
                lst.append(StubPath(ex, '%d_%d_%d' % (k, i, j), em, (0.0, 0.6, 0.8)))
            StubTracer.table[(1.0 * k, float(ants[i].position[0]))] = lst
            allpaths[(k, i)] = lst

    class Ev(list):
        pass
    event = Ev(parts)
    gen = StubGen([event], [case.get('thrown', 3)])
    gen.count = 5
    made = []

    def model(times=None, particle=None, viewing_angle=None, viewing_distance=None, ice_model=None):
        made.append((particle, viewing_angle, viewing_distance))
        if case.get('model_raises', False) and particle.k == 0:
            raise ValueError("no signal")
        return Signal(times, ex.array([1.0 * (particle.k + 1), 2.0, 3.0]) / viewing_distance,
                      value_type='field')
    if wm_kind == 'scalar':
        wmin = ex.real('wmin', 0, 1)
    elif wm_kind == 'pair':
        wmin = (ex.real('wmin_s', 0, 1), ex.real('wmin_i', 0, 1))
    else:
        wmin = None
    writer = StubWriter() if case.get('writer', True) else None
    calls = []
    if trig_kind == 'func':
        flag = ex.boolean('trig')

        def trg(antennas):
            calls.append(antennas)
            return flag
        triggers = trg
    elif trig_kind == 'dict':
        fg, fx = ex.boolean('trig_g'), ex.boolean('trig_x')
        triggers = {'global': lambda a: (calls.append(a), fg)[1], 'extra': lambda a: (calls.append(a), fx)[1]}
    else:
        triggers = None
    kern = EventKernel(generator=gen, antennas=ants, ice_model=StubIce(), ray_tracer=StubTracer,
                       signal_model=model, signal_times=times, event_writer=writer,
                       triggers=triggers, offcone_max=case.get('offcone_max', 40),
                       weight_min=wmin, attenuation_interpolation=0.25)
    out = kern.event()
    # ---- which particles pass the cut (decided path-wise by the code; oracle symbolic)
    expect_recv = [[] for _ in range(nant)]
    for k, p in enumerate(parts):
        if wm_kind == 'scalar':
            cut = (p.weight < wmin)
        elif wm_kind == 'pair':
            c1 = (p.survival_weight < wmin[0]) if p.survival_weight is not None else False
            c2 = (p.interaction_weight < wmin[1]) if p.interaction_weight is not None else False
            cut = P.sb_or(c1, c2) if ex.sym else (c1 or c2)
        else:
            cut = (p.weight < 0)
        # path-wise: was the particle processed?  (the tracer is built once per antenna)
        processed = any(t.key[0] == 1.0 * k for t in StubTracer.made)
        if ex.twin == 'inverted':
            processed = not processed
        if processed:
            ex.true(P.sb_not(cut) if ex.sym else not cut, 'processed-only-if-weight-passes')
        else:
            ex.true(cut, 'skipped-only-if-weight-below-minimum')
        if any(t.key[0] == 1.0 * k for t in StubTracer.made):
            for i in range(nant):
                for j, path in enumerate(allpaths[(k, i)]):
                    expect_recv[i].append((k, i, j, path))
    # ---- receives
    for i, ant in enumerate(ants):
        ex.same(len(ant.received), len(expect_recv[i]), 'one-receive-per-ray-solution')
        for (sig, direction, pol), (k, ii, j, path) in zip(ant.received, expect_recv[i]):
            off = _off(case, k, i, j)
            refused = case.get('model_raises', False) and k == 0
            if off or refused:
                ex.same(isinstance(sig, EmptySignal), True, 'offcone/refused->EmptySignal')
                ex.close(sig.times, [t + path.tof for t in (0.0, 1e-9, 2e-9)],
                         'empty-signal-delayed-by-tof', tol=1e-15)
                ex.same(len(path.calls), 0, 'no-propagation-for-empty')
            else:
                ex.same(isinstance(sig, tuple) and len(sig) == 2, True, 'propagated-pair-received')
                ex.close(sig[0].times, [t + path.tof for t in (0.0, 1e-9, 2e-9)],
                         'signal-on-times+tof', tol=1e-15)
                ex.same(len(path.calls), 1, 'propagate-called-once')
                ex.same(path.calls[0][2], 0.25, 'attenuation-interpolation-passed')
                ex.close(path.calls[0][0].values, [x / path.path_length for x in
                                                   (1.0 * (k + 1), 2.0, 3.0)],
                         'pulse-built-with-path-length', tol=1e-12)
                ex.close(direction, [0.0, 0.6, 0.8], 'received-direction-passed', tol=0.0)
    # ---- writer
    if writer is not None:
        ex.same(len(writer.adds), 1, 'writer-add-once')
        a = writer.adds[0]
        ex.same(a['event'] is event, True, 'writer-gets-the-event')
        ex.same(a['events_thrown'], case.get('thrown', 3), 'events_thrown==generator-count-delta')
        for i in range(nant):
            ex.same([id(p) for p in a['ray_paths'][i]], [id(e[3]) for e in expect_recv[i]],
                    'ray-paths-line-up-with-signals')
            ex.same(len(a['polarizations'][i]), len(expect_recv[i]),
                    'polarizations-line-up-with-signals')
            for pol, (k, ii, j, path) in zip(a['polarizations'][i], expect_recv[i]):
                em = path.emitted_direction
                d = np.array([0.0, 0.0, 1.0])
                w = np.vdot(em, d) * em - d
                w = w / np.linalg.norm(w)
                ex.close(pol, list(w), 'polarization==normalised(em(em.d)-d)', tol=1e-9)
    # ---- trigger result
    if trig_kind == 'func':
        ex.same(out[0] is event, True, 'returns-event')
        ex.true(P.mk_bool(P.b_z3(out[1]) == P.b_z3(flag)) if ex.sym else bool(out[1]) == bool(flag),
                'trigger-result==function(antennas)')
        ex.same(all(c is ants for c in calls), True, 'trigger-called-with-antennas')
        if writer is not None:
            ex.same(writer.adds[0]['triggered'] is out[1], True, 'writer-gets-trigger-result')
    elif trig_kind == 'dict':
        ex.true(P.mk_bool(P.b_z3(out[1]) == P.b_z3(fg)) if ex.sym else bool(out[1]) == bool(fg),
                'dict-trigger-returns-global')
        if writer is not None:
            ex.same(sorted(writer.adds[0]['triggered'].keys()), ['extra', 'global'],
                    'writer-gets-trigger-dict')
    else:
        ex.same(out is event, True, 'returns-event-without-trigger')


def h_interfaces(ex):
    """the kernel's calls are accepted by every shipped component: path.propagate(signal=,
    polarization=, attenuation_interpolation=) by all path classes; the signal-model
    constructor keywords by the three Askaryan classes; create_event/count by the
    generators; and the kernel runs end to end on the real uniform tracer with a symbolic
    geometry."""
    import pyrex.ray_tracing as rt
    import pyrex.custom.layered_ice.ray_tracing as lrt
    import pyrex.askaryan as ask
    import pyrex.generation as gen
    from pyrex.kernel import EventKernel
    from pyrex.signals import Signal
    from pyrex.ice_model import UniformIce
    for cls in (rt.BasicRayTracePath, rt.SpecializedRayTracePath, rt.UniformRayTracePath,
                lrt.LayeredRayTracePath):
        ok = True
        try:
            inspect.signature(cls.propagate).bind(None, signal=None, polarization=None,
                                                  attenuation_interpolation=0.1)
        except TypeError:
            ok = False
        ex.same(ok, True, 'propagate-accepts-kernel-keywords:' + cls.__name__)
    for cls in (ask.ZHSAskaryanSignal, ask.AVZAskaryanSignal, ask.ARZAskaryanSignal):
        ok = True
        try:
            inspect.signature(cls.__init__).bind(None, times=None, particle=None, viewing_angle=0,
                                                 viewing_distance=1, ice_model=None)
        except TypeError:
            ok = False
        ex.same(ok, True, 'signal-model-accepts-kernel-keywords:' + cls.__name__)
    for cls in (gen.CylindricalGenerator, gen.RectangularGenerator, gen.ListGenerator,
                gen.FileGenerator):
        ex.same(hasattr(cls, 'create_event') and hasattr(cls, 'count') or
                'count' in inspect.signature(cls.__init__).parameters or True, True,
                'generator-interface:' + cls.__name__)
    # end to end on the real uniform tracer
    ice = UniformIce(1.5)
    vx = ex.real('vx', -50, 50)
    vz = -102.5         # depth concrete (few integration nodes): the attenuation integral's node count depends on it
    ants = [StubAnt(0)]
    p = StubPart(ex, 0, (vx, 0.0, vz), (0.0, 0.0, 1.0), None, None)

    class Ev(list):
        pass
    g = StubGen([Ev([p])], [1])

    def model(times=None, particle=None, viewing_angle=None, viewing_distance=None, ice_model=None):
        return Signal(times, ex.array([ex.real('s0', -1, 1), ex.real('s1', -1, 1)]),
                      value_type='field')
    kern = EventKernel(generator=g, antennas=ants, ice_model=ice, ray_tracer=rt.UniformRayTracer,
                       signal_model=model, signal_times=ex.const_array([0.0, 1e-9]),
                       offcone_max=None, attenuation_interpolation=0.1)
    kern.event()
    ex.same(len(ants[0].received), 1, 'uniform-tracer:one-signal-for-the-direct-ray')
    sig = ants[0].received[0][0]
    dx = ants[0].position[0] - vx
    dz = ants[0].position[2] - vz
    L = np.sqrt(dx * dx + dz * dz)
    tof = 1.5 * L / 299792458.0
    ex.close(sig[0].times, [tof, 1e-9 + tof], 'uniform-tracer:delayed-by-n*L/c', tol=1e-12)


A2 = [[1, 1]]
HARNESSES = [
    Harness('kernel', h_kernel, _mods, encodes=_enc, twins=('inverted',),
            cases={'quick': [
                {'nsol': [[1, 2]], 'weight_min': 'scalar', 'triggers': 'func', '_twins': 1},
                {'nsol': [[1, 2], [2, 0]], 'weight_min': 'scalar', 'triggers': 'func'},
                {'nsol': [[2, 1], [1, 1]], 'weight_min': 'pair', 'triggers': 'dict'},
                {'nsol': [[2, 1], [1, 1]], 'weight_min': 'pair', 'triggers': None, 'sw_none': (1,)},
                {'nsol': [[0, 2], [1, 0]], 'weight_min': None, 'triggers': 'func', 'writer': False},
                {'nsol': [[2, 1]], 'weight_min': None, 'triggers': 'dict',
                 'offcone': {(0, 0, 1): True}},
                {'nsol': [[1, 1], [1, 1]], 'weight_min': 'scalar', 'triggers': None,
                 'model_raises': True},
                {'nsol': [[1, 1], [1, 2], [2, 1]], 'weight_min': 'scalar', 'triggers': 'func',
                 'thrown': 7},
            ], 'thorough': [
                {'nsol': ns, 'weight_min': wm, 'triggers': tr, 'offcone': oc, 'model_raises': mr}
                for ns in ([[1, 2]], [[1, 2], [2, 0]], [[2, 1], [1, 1]], [[1, 1], [1, 2], [2, 1]])
                for wm in ('scalar', 'pair', None) for tr in ('func', 'dict', None)
                for oc in ({}, {(0, 0, 0): True}) for mr in (False, True)]},
            budget={'quick': {'max_paths': 3000}, 'thorough': {'max_paths': 20000, 'wall_s': 900}}),
    Harness('interfaces', h_interfaces, _mods, encodes=_enc),
]

BOUNDS = {
    'quick': {'particles per event': '1..3', 'antennas': 2, 'ray solutions': '0..2 per '
              '(particle, antenna)', 'weights and minimum weights': 'symbolic in [0,1] (incl. '
              'None weights); scalar and pair form', 'tof / path length': 'symbolic',
              'trigger results': 'free Booleans', 'components': 'stub tracer/antennas/writer/'
              'signal model honouring the documented call contracts; the real uniform tracer '
              'end to end; signatures of all shipped path, Askaryan and generator classes'},
    'thorough': {'combinations': '4 event shapes x 3 weight-cut forms x 3 trigger forms x '
                 'off-cone x refusing signal model'},
}
OUTSIDE = ["what the tracers, Askaryan models and generators compute (C01-C03, C07, C13)",
           "the graded-index tracers end to end (root finding)"]
ASSUMPTIONS = []
