"""C16 - ice models: index, inverse, gradient, ranges, attenuation.

Encoded: AntarcticIce.index/gradient/depth_with_index/contains/temperature/_atten_coeffs/
attenuation_length/index_above/index_below; UniformIce.*; ArasimIce.attenuation_length;
GreenlandIce.temperature/attenuation_length (pyrex/ice_model.py); LayeredIce.layer_at_depth/
index/boundaries/contains (pyrex/custom/layered_ice/ice_model.py).
"""
import math
import numpy as np

from symx.explore import Harness
from symx import poly as P


def _mods():
    import pyrex.ice_model
    import pyrex.custom.layered_ice.ice_model as lim
    return [pyrex.ice_model, lim]


def _enc():
    import pyrex.ice_model as im
    import pyrex.custom.layered_ice.ice_model as lim
    A_, U, R, G, L = im.AntarcticIce, im.UniformIce, im.ArasimIce, im.GreenlandIce, lim.LayeredIce
    return [A_.index, A_.gradient, A_.depth_with_index, A_.contains, A_.temperature,
            A_._atten_coeffs, A_.attenuation_length, A_.index_above.fget, A_.index_below.fget,
            U.index, U.gradient, U.contains, R.attenuation_length, G.temperature,
            G.attenuation_length, L.layer_at_depth, L.index, L.boundaries.fget, L.contains]


def make_ice(ex, which):
    import pyrex.ice_model as im
    if which == 'antarctic':
        return im.AntarcticIce()
    if which == 'arasim':
        return im.ArasimIce()
    if which == 'greenland':
        return im.GreenlandIce()
    if which == 'uniform':
        n = ex.real('n_u', 1.0, 3.0)
        return im.UniformIce(n, valid_range=(-2850, 0))
    if which == 'uniform-noabove':
        n = ex.real('n_u', 1.0, 3.0)
        return im.UniformIce(n, valid_range=(-2850, 0), index_above=None, index_below=None)
    if which == 'symbolic':
        n0 = ex.real('n0', 1.2, 2.5)
        k = ex.real('k', 0.05, 1.0)
        a = ex.real('a', 0.001, 0.1)
        ex.assume(k < n0 - 1)
        lo = ex.real('lo', -4000, -100)
        return im.AntarcticIce(n0=n0, k=k, a=a, valid_range=(lo, 0), index_above=1.0,
                               index_below=None)
    raise ValueError(which)


def h_index(ex):
    """index: scalar == array elementwise; declared indices outside the range; strictly
    increasing with depth inside it."""
    which = ex.case['ice']
    ice = make_ice(ex, which)
    lo, hi = ice.valid_range
    zs = [ex.real('z%d' % i, -5000, 200) for i in range(ex.case.get('m', 2))]
    arr = ice.index(ex.array(zs))
    ex.same(len(arr), len(zs), 'array-shape')
    for i, z in enumerate(zs):
        s = ice.index(z)
        ex.close(arr[i], s, 'scalar==array', tol=0.0)
        above = z > hi
        below = z < lo
        if ex.sym:
            exp_out = P.ite(above, ice.index_above, P.ite(below, ice.index_below, s))
        else:
            exp_out = ice.index_above if above else (ice.index_below if below else s)
        ex.close(s, exp_out, 'declared-index-outside-range', tol=0.0)
    # on the bounds exactly: the in-range formula
    if which != 'uniform' and which != 'uniform-noabove':
        n_hi = ice.n0 - ice.k * np.exp(ice.a * hi) if hi != 0 else ice.n0 - ice.k
        ex.close(ice.index(hi), n_hi, 'bound-belongs-to-range', tol=1e-12)
        ex.close(ice.index(ex.array([hi, lo]))[0], n_hi, 'bound-belongs-to-range(array)', tol=1e-12)
        # monotone
        z1 = ex.real('m1', -5000, 200)
        z2 = ex.real('m2', -5000, 200)
        ex.assume(z1 >= lo)
        ex.assume(z2 <= hi)
        ex.assume(z1 < z2)
        if ex.twin == 'decreasing':
            ex.assume(z1 >= -300)
            ex.assume(z2 - z1 >= 50)
        n1, n2 = ice.index(z1), ice.index(z2)
        if ex.twin == 'decreasing':
            ex.lt(n1, n2, 'index-increases-with-depth')
        else:
            ex.lt(n2, n1, 'index-increases-with-depth')
    else:
        ex.close(ice.index((lo + hi) / 2), ice.n, 'uniform-index', tol=0.0)


def h_inverse_gradient(ex):
    """depth_with_index inverts index inside the range, clamps outside; gradient = dn/dz."""
    which = ex.case['ice']
    ice = make_ice(ex, which)
    lo, hi = ice.valid_range
    z = ex.real('z', -5000, 200)
    ex.assume(z >= lo)
    ex.assume(z <= hi)
    n = ice.index(z)
    # "wherever numerically distinguishable from the asymptote": k e^{az} > 1e-6
    ex.assume(ice.n0 - n > 1e-6)
    back = ice.depth_with_index(n)
    ex.close(back, z, 'depth_with_index(index(z))==z', tol=1e-9)
    # forward: attainable n
    nn = ex.real('nn', 0.5, 3.0)
    n_top = ice.index(hi)
    n_bot = ice.index(lo)
    zz = ice.depth_with_index(nn)
    if ex.sym:
        inside = P.sb_and(nn >= n_top, nn <= n_bot)
    else:
        inside = (n_top <= nn <= n_bot)
    try_branch = ex.choice(3)
    if try_branch == 0:
        ex.assume(inside)
        ex.assume(ice.n0 - nn > 1e-6)
        ex.close(ice.index(zz), nn, 'index(depth_with_index(n))==n', tol=1e-9)
        ex.true(zz >= lo, 'inverse-inside-range-lo')
        ex.true(zz <= hi, 'inverse-inside-range-hi')
    elif try_branch == 1:
        ex.assume(nn < n_top)
        ex.close(zz, hi if ex.twin != 'clamp-wrong' else lo, 'clamp-to-upper-bound', tol=0.0)
    else:
        ex.assume(nn > n_bot)
        ex.close(zz, lo, 'clamp-to-lower-bound', tol=0.0)
    # array form agrees with the scalar form on all three branches
    arr = ice.depth_with_index(ex.array([nn, n]))
    ex.close(arr[0], zz, 'inverse-scalar==array', tol=1e-9)
    ex.close(arr[1], z, 'inverse-scalar==array(2)', tol=1e-9)
    # gradient: forward-mode derivative of the real index()
    zd = P.dual(z) if ex.sym else z
    if ex.sym:
        nd = ice.index(zd)
        g = ice.gradient(z)
        ex.close(g[2], P.tangent(nd), 'gradient==d(index)/dz', tol=1e-12)
        ex.close(g[0], 0.0, 'gradient-x', tol=0.0)
        ex.close(g[1], 0.0, 'gradient-y', tol=0.0)
    else:
        h = 1e-4
        if lo + h < z < hi - h:
            fd = (ice.index(z + h) - ice.index(z - h)) / (2 * h)
            ex.close(ice.gradient(z)[2], fd, 'gradient==d(index)/dz', tol=1e-7)


def h_attenuation(ex):
    """attenuation lengths positive for f>0; documented shapes; each matrix entry equals the
    scalar evaluation; non-increasing in frequency."""
    which = ex.case['ice']
    ice = make_ice(ex, which)
    lo, hi = ice.valid_range
    nz, nf = ex.case.get('nz', 2), ex.case.get('nf', 2)
    # either the depths or the frequencies are symbolic (both at once drives the degree
    # of the temperature polynomials times log(f) beyond what nlsat finishes)
    mode = ex.case.get('sym', 'f')
    ZC = [-150.0, -1700.0, -2849.0, 0.0]
    FC = [2e8, 1e9, 3.3e9, 5e6]
    if mode == 'f':
        zs = ZC[:nz]
        fs = [ex.real('f%d' % i, 1e6, 5e9) for i in range(nf)]
    else:
        zs = [ex.real('z%d' % i, -2850, 0) for i in range(nz)]
        fs = FC[:nf]
    M = ice.attenuation_length(ex.array(zs), ex.array(fs))
    ex.same(tuple(np.shape(M)), (nz, nf), 'matrix-shape')
    row = ice.attenuation_length(zs[0], ex.array(fs))
    col = ice.attenuation_length(ex.array(zs), fs[0])
    ex.same(tuple(np.shape(row)), (nf,), 'row-shape')
    ex.same(tuple(np.shape(col)), (nz,), 'column-shape')
    for i, z in enumerate(zs):
        for j, f in enumerate(fs):
            s = ice.attenuation_length(z, f)
            ex.close(M[i][j], s, 'matrix-entry==scalar', tol=1e-9)
            if i == 0:
                ex.close(row[j], s, 'row-entry==scalar', tol=1e-9)
            if j == 0:
                ex.close(col[i], s, 'column-entry==scalar', tol=1e-9)
            if ex.twin == 'negative':
                ex.lt(s, 0.0, 'attenuation-positive')
            else:
                ex.lt(0.0, s, 'attenuation-positive')
    if mode == 'z':
        return
    # antitone in frequency (the assumption C03 uses), for concrete depths
    z = zs[0]
    if mode == 'f':
        f1 = ex.real('g1', 1e6, 5e9)
        f2 = ex.real('g2', 1e6, 5e9)
        ex.assume(f1 < f2)
    else:
        f1, f2 = [(2e8, 7e8), (7e8, 1e9), (1e9, 3e9), (5e8, 2e9)][ex.choice(4)]
    L1 = ice.attenuation_length(z, f1)
    L2 = ice.attenuation_length(z, f2)
    ex.le(L2, L1, 'attenuation-nonincreasing-in-frequency', tol=1e-9)


def h_atten_int_freqs(ex):
    """integer-dtype frequency arrays give the same row as the float scalar evaluations."""
    which = ex.case['ice']
    ice = make_ice(ex, which)
    z = ex.real('z', -2850, 0)
    fi = np.array([100, 350, 1100, 1600]) * 1000000
    row = ice.attenuation_length(z, fi)
    for j, f in enumerate(fi):
        ex.close(row[j], ice.attenuation_length(z, float(f)), 'int-frequency-row==scalar',
                 tol=1e-9)


def h_layered(ex):
    """a layered ice dispatches every depth to the layer containing it."""
    import pyrex.ice_model as im
    from pyrex.custom.layered_ice.ice_model import LayeredIce
    zb = ex.real('zb', -2000, -10)
    zc = ex.real('zc', -2800, -20)
    ex.assume(zc < zb - 1)
    n1 = ex.real('n1', 1.1, 2.0)
    n2 = ex.real('n2', 1.1, 2.0)
    top = im.UniformIce(n1, valid_range=(zb, 0))
    mid = im.AntarcticIce(n0=1.78, k=0.43, a=0.0132, valid_range=(zc, zb))
    # the bottom layer may declare its own index below: the stack's documented fallback
    # (None) is 'the index at the lowermost boundary', not the layer's declaration
    bot = im.UniformIce(n2, valid_range=(-2850, zc), index_below=ex.case.get('layer_below'))
    order = ex.case.get('order', 0)
    layers = [[top, mid, bot], [bot, top, mid], [mid, bot, top]][order]
    above = ex.case.get('above', 1.0)
    ice = LayeredIce(layers, index_above=above, index_below=None)
    n_above = n1 if above is None else above     # None: index at the uppermost boundary
    ex.close(ice.index_above, n_above, 'declared-index-above', tol=0.0)
    ex.close(ice.index_below, n2, 'index-below==index-at-the-lowermost-boundary', tol=0.0)
    b = ice.boundaries
    ex.close(b, [0.0, zb, zc, -2850.0], 'boundaries', tol=0.0)
    z = ex.real('z', -3000, 100)
    got = ice.index(z)
    if ex.sym:
        want = P.ite(z > 0, n_above, P.ite(z > zb, n1, P.ite(z > zc, mid.index(z) if True else 0,
                                                           P.ite(z >= -2850, n2, n2))))
    else:
        want = n_above if z > 0 else (n1 if z > zb else (mid.index(z) if z > zc else n2))
    if ex.twin == 'open-top':
        want = P.ite(z >= zb, n1, want) if ex.sym else (n1 if z >= zb else want)
    ex.close(got, want, 'layer-dispatch', tol=1e-12)
    arr = ice.index(ex.array([z, zb, zc]))
    ex.close(arr[0], got, 'layered-scalar==array', tol=0.0)
    ex.close(arr[1], mid.index(zb), 'boundary-belongs-to-lower-layer', tol=1e-12)
    ex.close(arr[2], n2, 'boundary-belongs-to-lower-layer(2)', tol=0.0)
    # contains
    inside = ice.contains([0.0, 0.0, z])
    ex.true(inside == (P.sb_and(z >= -2850, z <= 0) if ex.sym else (-2850 <= z <= 0)),
            'contains==union-of-layers')
    # gaps are rejected
    gap = LayeredIce([im.UniformIce(1.5, valid_range=(-100, 0)),
                      im.UniformIce(1.6, valid_range=(-300, -150))])
    ex.raises(lambda: gap.boundaries, (ValueError,), 'gap-rejected')


ICES = ['antarctic', 'arasim', 'greenland', 'symbolic']
HARNESSES = [
    Harness('index', h_index, _mods, encodes=_enc, twins=('decreasing',),
            cases={'quick': [{'ice': 'antarctic', '_twins': 1}] +
                   [{'ice': i} for i in ICES + ['uniform', 'uniform-noabove']],
                   'thorough': [{'ice': 'antarctic', '_twins': 1}] +
                   [{'ice': i, 'm': m} for i in ICES + ['uniform', 'uniform-noabove']
                    for m in (1, 2, 3)]},
            budget={'quick': {'max_paths': 1500}, 'thorough': {'max_paths': 20000, 'wall_s': 600}}),
    Harness('inverse-gradient', h_inverse_gradient, _mods, encodes=_enc, twins=('clamp-wrong',),
            cases={'quick': [{'ice': i} for i in ICES], 'thorough': [{'ice': i} for i in ICES]},
            budget={'quick': {'max_paths': 1500}, 'thorough': {'max_paths': 5000, 'wall_s': 600}}),
    Harness('attenuation', h_attenuation, _mods, encodes=_enc, twins=('negative',),
            cases={'quick': [{'ice': i, 'nz': 2, 'nf': 2, 'sym': 'f'} for i in
                             ('antarctic', 'arasim', 'greenland', 'uniform')] +
                   [{'ice': i, 'nz': 2, 'nf': 2, 'sym': 'z'} for i in ('arasim', 'antarctic')],
                   'thorough': [{'ice': i, 'nz': nz, 'nf': nf, 'sym': 'f'} for i in
                                ('antarctic', 'arasim', 'greenland', 'uniform')
                                for (nz, nf) in ((1, 1), (2, 2), (1, 3), (3, 1), (2, 3), (4, 3))]
                   + [{'ice': i, 'nz': nz, 'nf': nf, 'sym': 'z'}
                      for i in ('arasim', 'antarctic', 'uniform')
                      for (nz, nf) in ((1, 1), (2, 2), (3, 2))]},
            budget={'quick': {'max_paths': 3000, 'wall_s': 300},
                    'thorough': {'max_paths': 20000, 'wall_s': 1200}}),
    Harness('attenuation-int-frequencies', h_atten_int_freqs, _mods, encodes=_enc,
            cases={'quick': [{'ice': i} for i in ('antarctic', 'uniform', 'arasim')],
                   'thorough': [{'ice': i} for i in ('antarctic', 'uniform', 'arasim')]}),
    Harness('layered', h_layered, _mods, encodes=_enc, twins=('open-top',),
            cases={'quick': [{'order': 0}, {'order': 1}, {'order': 2, 'above': None},
                             {'order': 0, 'layer_below': 1.25}],
                   'thorough': [{'order': 0}, {'order': 1}, {'order': 2}] +
                   [{'order': o, 'above': a, 'layer_below': lb} for o in (0, 1, 2)
                    for a in (None, 1.3) for lb in (None, 1.25)]},
            budget={'quick': {'max_paths': 3000}, 'thorough': {'max_paths': 10000}}),
]

BOUNDS = {
    'quick': {'depths': 'symbolic in [-5000,200] (index) / [-2850,0] (attenuation)',
              'ice parameters': 'the three shipped sets concretely plus symbolic n0 in [1.2,2.5],'
              ' k in [0.05,1], a in [0.001,0.1], k<n0-1, lower bound in [-4000,-100]',
              'arrays': 'length 2 (index), 2x2 matrix / row / column (attenuation)',
              'frequencies': '[1e6, 5e9] Hz symbolic', 'layers': '3-layer stack uniform/'
              'exponential/uniform with symbolic boundaries, 2 of 6 input orders'},
    'thorough': {'arrays': 'length 1..3; matrices up to 2x3 / 3x1', 'layers': '3 input orders'},
}
OUTSIDE = ["attenuation with symbolic depth AND symbolic frequency at once; GreenlandIce "
           "attenuation with symbolic depth (degree-5 temperature polynomial inside 10**x)",
           "'numerically indistinguishable from the asymptote': the inverse is claimed for "
           "n0 - n > 1e-9", "exp/log are uninterpreted with monotonicity/sign/inverse axioms",
           "frequencies outside [1 MHz, 5 GHz]", "LayeredIce stacks of more than 3 layers"]
ASSUMPTIONS = ["exp strictly increasing and positive, log its inverse (axiom instances per "
               "application pair)", "scipy.interpolate.interp1d(kind=linear, extrapolate) per "
               "its documentation"]
