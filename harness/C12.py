"""C12 - every way of reading or continuing a file yields the same event stream.

Encoded: EventIterator.__init__/__next__/_load_data/_get_event_data/total_events_thrown;
HDF5Reader.open/__getitem__/__iter__/__len__ (pyrex/io.py); HDF5Writer.open (append branch);
FileGenerator.__init__/_load_events/_next_file/create_event/count;
ListGenerator.create_event/count (pyrex/generation.py).
h5py is replaced by the in-memory model symx/h5model.py (row counts and index-table entries
are solver integers).
"""
import numpy as np

from symx.explore import Harness
from symx import poly as P
from symx import h5model as H


def _mods():
    import pyrex.io
    return [pyrex.io]


def _enc():
    from pyrex.io import EventIterator as E, HDF5Reader as R
    return [E.__init__, E.__next__, E._load_data, E._get_event_data, R.open, R.__getitem__,
            R.__iter__, R.__len__]


class Env:
    """Per-run h5py stand-in installed into pyrex.io."""
    shim = None


def _swaps(ex):
    import pyrex.io
    Env.shim = H.H5Shim()
    return [(pyrex.io, 'h5py', Env.shim)]


def _swaps_concrete():
    import pyrex.io
    Env.shim = H.H5Shim()
    Env.saved = pyrex.io.h5py
    pyrex.io.h5py = Env.shim


def build_file(ex, n, tables=('/monte_carlo_data/particles', '/data/triggers'), gaps=False):
    """A file holding n events whose index-table entries are solver integers satisfying the
    writer's representation invariant (every table: rows of successive events are
    contiguous and ordered; the datasets are exactly as long as the last event's end)."""
    shim = Env.shim
    f = shim.File('sym.h5', 'w')
    f.attrs['version_major'] = 1
    f.attrs['version_minor'] = 1
    idx = f.create_dataset('/event_indices', shape=(n, len(tables), 2), dtype=np.int_)
    idx.attrs['keys'] = list(tables)
    f.create_group('/file_metadata')
    f.create_dataset('/file_metadata/str', shape=(1,))
    f.create_dataset('/file_metadata/float', shape=(1,))
    spans = {}
    for t, tab in enumerate(tables):
        cur = ex.integer('base_%d' % t, 0, 1000)
        spans[tab] = []
        for e in range(n):
            ln = ex.integer('len_%d_%d' % (t, e), 0, 1000) if tab != '/data/triggers' else 1
            if tab == '/data/triggers' and ex.case.get('sym_trig_len'):
                ln = ex.integer('len_%d_%d' % (t, e), 0, 1)
            if gaps:
                cur = cur + ex.integer('gap_%d_%d' % (t, e), 0, 5)
            idx[e, t] = (cur, ln)
            spans[tab].append((cur, ln))
            cur = cur + ln
        total = cur
        if tab.startswith('/monte_carlo_data/'):
            g = f.create_group(tab)
            s = f.create_dataset(tab + '/str', shape=(total, 2))
            s.attrs['keys'] = ['particle_name', 'interaction_kind']
            s.force_rows = True
            fl = f.create_dataset(tab + '/float', shape=(total, 3))
            fl.attrs['keys'] = ['particle_id', 'vertex_x', 'energy']
            fl.force_rows = True
            if tab.endswith('particles'):
                f[tab].attrs['total_thrown'] = ex.integer('thrown', 0, 10 ** 6)
        else:
            f.create_dataset(tab, shape=(total,), dtype=np.bool_).force_rows = True
    if '/monte_carlo_data/particles' not in tables:
        f.create_group('/monte_carlo_data/particles')
        f['/monte_carlo_data/particles'].attrs['total_thrown'] = 0
    return f, spans


def rows_of(ev, key):
    d = ev._get_event_data(key)
    return d


def check_event(ex, ev, spans, e, label):
    """The iterator currently positioned on event e serves exactly that event's rows."""
    fl, st = ev._get_event_data('particles_meta')
    s, l = spans['/monte_carlo_data/particles'][e]
    for nm, r in (('float', fl), ('str', st)):
        if not isinstance(r, H.Rows):
            # the table is empty as a whole: "no rows" is right iff this event has none
            ex.same(np.size(r), 0, label + '-empty-table-gives-no-rows')
            ex.close(l, 0, '%s-particles-%s-empty-only-if-no-rows' % (label, nm), tol=0.0)
            continue
        ex.close(r.lo, s, '%s-particles-%s-first-row' % (label, nm), tol=0.0)
        ex.close(r.hi, s + l, '%s-particles-%s-end-row' % (label, nm), tol=0.0)
    tr = ev._get_event_data('triggers')
    s, l = spans['/data/triggers'][e]
    if not isinstance(tr, H.Rows):
        ex.same(np.size(tr), 0, label + '-empty-table-gives-no-rows')
        ex.close(l, 0, label + '-trigger-empty-only-if-no-rows', tol=0.0)
        return
    ex.close(tr.lo, s, label + '-trigger-first-row', tol=0.0)
    ex.close(tr.hi, s + l, label + '-trigger-end-row', tol=0.0)


def _open_reader(slice_range):
    from pyrex.io import HDF5Reader
    r = HDF5Reader('sym.h5', slice_range=slice_range)
    r.open()
    return r


def h_iterate(ex):
    """sequential iteration with every chunk size visits events 0..n-1 in order and serves
    each event its own rows."""
    n, sr = ex.case['n'], ex.case['slice_range']
    if not ex.sym:
        _swaps_concrete()
    try:
        f, spans = build_file(ex, n)
        rd = _open_reader(sr)
        ex.same(len(rd), n, 'len==number-of-events')
        seen = 0
        for ev in rd:
            num = ev._iter_counter * ev._slice_step + ev._slice_start_event
            ex.same(num, seen, 'iteration-order')
            check_event(ex, ev, spans, seen if ex.twin != 'shifted' else min(seen + 1, n - 1),
                        'iter')
            seen += 1
            if seen > n + 1:
                break
        ex.same(seen, n, 'iteration-visits-every-event-once')
    finally:
        if not ex.sym:
            import pyrex.io
            pyrex.io.h5py = Env.saved


def h_index(ex):
    """f[i] for -n <= i < n is the i-th event of a sequential pass; out of range raises."""
    n, sr = ex.case['n'], ex.case['slice_range']
    if not ex.sym:
        _swaps_concrete()
    try:
        f, spans = build_file(ex, n)
        rd = _open_reader(sr)
        for i in range(-n, n):
            ev = rd[i]
            check_event(ex, ev, spans, i % n, 'index')
        ex.raises(lambda: rd[n], (IndexError,), 'index-n-out-of-range')
        ex.raises(lambda: rd[-n - 1], (IndexError,), 'index-below-minus-n-out-of-range')
    finally:
        if not ex.sym:
            import pyrex.io
            pyrex.io.h5py = Env.saved


def h_slice(ex):
    """f[a:b:s] yields, event for event, the same data as the sequential pass restricted to
    range(a, b, s), for every in-range start/stop (and negative spellings) and step >= 1."""
    n, sr = ex.case['n'], ex.case['slice_range']
    a, b, st = ex.case['slice']
    if not ex.sym:
        _swaps_concrete()
    try:
        f, spans = build_file(ex, n)
        rd = _open_reader(sr)
        want = list(range(*slice(a, b, st).indices(n)))
        got = []
        it = rd[a:b:st]
        for ev in it:
            num = ev._iter_counter * ev._slice_step + ev._slice_start_event
            got.append(num)
            if len(got) <= len(want):
                check_event(ex, ev, spans, want[len(got) - 1], 'slice')
            if len(got) > n + 2:
                break
        ex.same(got, want, 'slice-visits-range(start,stop,step)')
    finally:
        if not ex.sym:
            import pyrex.io
            pyrex.io.h5py = Env.saved


# ---------------------------------------------------------------------------------
# generators replaying stored events

class FakeEvent:
    def __init__(self, particles, thrown):
        self.particles = particles
        self.total_events_thrown = thrown

    def get_particle_info(self):
        return [dict(p) for p in self.particles]


class FakeFiles:
    """Stands in for pyrex.io.File inside pyrex.generation: readers over in-memory event
    lists (the reader itself is covered by the harnesses above)."""

    def __init__(self):
        self.content = {}
        self.opened = []
        self.closed = []

    def __call__(self, name, mode='r', slice_range=None):
        outer = self

        class R:
            def __init__(self):
                self.name = name
                self.slice_range = slice_range

            def open(self):
                outer.opened.append(name)

            def close(self):
                outer.closed.append(name)

            def __len__(self):
                return len(outer.content[name])

            def __getitem__(self, key):
                if isinstance(key, slice):
                    return outer.content[name][key]
                return outer.content[name][key]
        return R()


class StubInteraction:
    def __init__(self, particle, kind=None):
        self.particle = particle
        self.kind = kind


def _gen_mods():
    import pyrex.generation
    import pyrex.particle
    import pyrex.internal_functions
    return [pyrex.generation, pyrex.particle, pyrex.internal_functions]


def _gen_enc():
    from pyrex.generation import FileGenerator as F, ListGenerator as L
    return [F.__init__, F._load_events, F._next_file, F.create_event, F.count.fget, F.count.fset,
            L.__init__, L.create_event, L.count.fget, L.count.fset]


def h_file_generator(ex):
    """FileGenerator replays every stored particle of every file in order for every chunk
    size, then stops; count = sum of the files' total_events_thrown reached so far."""
    import pyrex.generation as gen
    lens = ex.case['lens']
    files = FakeFiles()
    saved = gen.File
    gen.File = files
    try:
        sr = ex.integer('slice_range', 1, max(2, sum(lens) + 2))
        names = []
        expected = []
        thrown = []
        for k, n in enumerate(lens):
            nm = 'f%d.h5' % k
            names.append(nm)
            T = ex.integer('thrown%d' % k, 0, 10 ** 6)
            thrown.append(T)
            evs = []
            for e in range(n):
                parts = []
                for j in range(1 + (e + k) % 2):
                    tag = ex.real('E_%d_%d_%d' % (k, e, j), 1e3, 1e12)
                    parts.append({'particle_id': [12, -14, 16][(e + j) % 3],
                                  'vertex_x': ex.real('vx_%d_%d_%d' % (k, e, j), -1e4, 1e4),
                                  'vertex_y': 1.0 * k, 'vertex_z': -10.0 * (e + 1),
                                  'direction_x': 0.0, 'direction_y': 0.0,
                                  'direction_z': 1.0 if (e % 2) else -1.0, 'energy': tag,
                                  'interaction_kind': 'cc' if j else 'nc',
                                  'interaction_inelasticity': ex.real('y_%d_%d_%d' % (k, e, j),
                                                                      0, 1),
                                  'interaction_em_frac': 0.25, 'interaction_had_frac': 0.5,
                                  'survival_weight': ex.real('sw_%d_%d_%d' % (k, e, j), 0, 1),
                                  'interaction_weight': 0.125})
                evs.append(FakeEvent(parts, T))
                expected.append((k, parts))
            files.content[nm] = evs
        if ex.twin == 'reversed' and len(expected) > 1:
            expected = expected[::-1]
        if not any(lens):
            # nothing to replay: the generator stops (at construction or at the first
            # request - the property does not say which) without producing an event
            def first_event():
                g0 = gen.FileGenerator(names, slice_range=sr, interaction_model=StubInteraction)
                return g0.create_event()
            ex.raises(first_event, (StopIteration,), 'empty-files-stop-without-an-event')
            return
        g = gen.FileGenerator(names, slice_range=sr, interaction_model=StubInteraction)
        c0 = ex.integer('count0', 0, 1000)
        g.count = c0
        for i, (k, parts) in enumerate(expected):
            ev = g.create_event()
            got = list(ev)
            ex.same(len(got), len(parts), 'number-of-particles')
            for p, q in zip(got, parts):
                ex.same(p.id.value, q['particle_id'], 'particle-type')
                ex.close(p.energy, q['energy'], 'particle-energy', tol=0.0)
                ex.close(p.vertex, [q['vertex_x'], q['vertex_y'], q['vertex_z']],
                         'particle-vertex', tol=0.0)
                ex.close(p.direction, [q['direction_x'], q['direction_y'], q['direction_z']],
                         'particle-direction', tol=1e-12)
                ex.same(p.interaction.kind, q['interaction_kind'], 'interaction-kind')
                ex.close(p.interaction.inelasticity, q['interaction_inelasticity'],
                         'interaction-inelasticity', tol=0.0)
                ex.close(p.interaction.em_frac, q['interaction_em_frac'], 'em-frac', tol=0.0)
                ex.close(p.interaction.had_frac, q['interaction_had_frac'], 'had-frac', tol=0.0)
                ex.close(p.survival_weight, q['survival_weight'], 'survival-weight', tol=0.0)
                ex.close(p.interaction_weight, q['interaction_weight'], 'interaction-weight',
                         tol=0.0)
            want = c0
            for kk in range(k + 1):
                if lens[kk] > 0 or True:
                    want = want + (thrown[kk] if lens[kk] > 0 else 0)
            ex.close(g.count, want, 'count==sum-of-total-thrown-so-far', tol=0.0)
        ex.raises(g.create_event, (StopIteration,), 'stops-after-last-event')
    finally:
        gen.File = saved


def h_list_generator(ex):
    """ListGenerator: k-th draw is events[(k-1) mod n] when looping; StopIteration exactly
    from draw n+1 otherwise; count = draws (+ offset set by the user)."""
    from pyrex.generation import ListGenerator
    from pyrex.particle import Particle, Event
    n, loop, draws = ex.case['n'], ex.case['loop'], ex.case['draws']
    evs = []
    for i in range(n):
        p = Particle(12, (0.0, 0.0, -10.0 * (i + 1)), (0.0, 0.0, 1.0), ex.real('E%d' % i, 1e3, 1e12),
                     interaction_model=StubInteraction)
        evs.append(p if i % 2 else Event(p))
    g = ListGenerator(list(evs), loop=loop)
    ex.close(g.count, 0, 'initial-count', tol=0.0)
    c0 = ex.integer('c0', 0, 1000)
    g.count = c0
    k_set = 0
    for k in range(1, draws + 1):
        if not loop and k > n:
            ex.raises(g.create_event, (StopIteration,), 'stop-after-list-exhausted')
            ex.close(g.count, c0 + n, 'count-unchanged-by-refused-draw', tol=0.0)
            continue
        ev = g.create_event()
        src = evs[(k - 1) % n if ex.twin != 'off-by-one' else k % n]
        root = list(ev)[0]
        want = src if isinstance(src, Particle) else list(src)[0]
        ex.true(root is want, 'draw-k-is-event-(k-1)-mod-n')
        ex.close(g.count, c0 + k, 'count==draws', tol=0.0)


def _slices(n):
    out = []
    for a in list(range(0, n)) + [None]:
        for b in list(range(1, n + 1)) + [None]:
            aa = 0 if a is None else a
            bb = n if b is None else b
            if aa < bb:
                out.append((a, b))
    return out


def _slice_cases(ns, srs, steps, neg=True):
    out = []
    for n in ns:
        for sr in srs:
            if sr is not None and sr > n + 1:
                continue
            for (a, b) in _slices(n):
                for st in steps:
                    out.append({'n': n, 'slice_range': sr, 'slice': (a, b, st)})
                    if neg and b is not None and b < n:
                        out.append({'n': n, 'slice_range': sr, 'slice': (a, b - n, st)})
                    if neg and a is not None and a > 0:
                        out.append({'n': n, 'slice_range': sr, 'slice': (a - n, b, st)})
    return out


KN_STEP = ("_load_data cuts the loaded block by the selected events' lengths only: with "
           "step > 1 events after the first of a chunk are served rows of skipped events")
KN_NEG = ("a slice with a negative stop makes HDF5Reader.__getitem__ compute "
          "slice_range = min(..., stop-start) <= 0")

HARNESSES = [
    Harness('iterate', h_iterate, _mods, encodes=_enc, extra_swaps=_swaps, twins=('shifted',),
            cases={'quick': [{'n': 3, 'slice_range': 2, '_twins': 1}] +
                   [{'n': n, 'slice_range': sr} for n in (1, 2, 3, 4)
                    for sr in [None] + list(range(1, n + 2))],
                   'thorough': [{'n': 3, 'slice_range': 2, '_twins': 1}] +
                   [{'n': n, 'slice_range': sr} for n in (1, 2, 3, 4, 5, 6, 7)
                    for sr in [None] + list(range(1, n + 2))]}),
    Harness('index', h_index, _mods, encodes=_enc, extra_swaps=_swaps,
            cases={'quick': [{'n': n, 'slice_range': sr} for n in (1, 2, 3, 4)
                             for sr in (None, 1, 2)],
                   'thorough': [{'n': n, 'slice_range': sr} for n in range(1, 8)
                                for sr in (None, 1, 2, 3)]}),
    Harness('slice', h_slice, _mods, encodes=_enc, extra_swaps=_swaps,
            cases={'quick': _slice_cases((3, 4), (None, 1, 2), (1, None)) +
                   _slice_cases((4,), (None, 2, 3), (2, 3), neg=False),
                   'thorough': _slice_cases((2, 3, 4, 5, 6), (None, 1, 2, 3, 4), (1, None)) +
                   _slice_cases((4, 5, 6), (None, 1, 2, 3), (2, 3, 4), neg=False)},
            budget={'quick': {'wall_s': 200}}),
]

def _append_harness():
    from harness import C11
    h = [x for x in C11.HARNESSES if x.name == 'append'][0]
    return Harness('append-sessions', h.fn, h.modules, cases=h.cases, twins=h.twins,
                   encodes=lambda: __import__('harness.C11', fromlist=['x'])._enc()[:2],
                   extra_swaps=h.extra_swaps, doc=h.fn.__doc__)


HARNESSES.append(_append_harness())

_LENS_Q = [(1,), (3,), (2, 1), (1, 0, 2), (4, 2), (0, 3), (2, 2, 1)]
_LENS_T = _LENS_Q + [(5,), (7,), (3, 4), (1, 1, 1), (0, 0, 2), (6, 1), (2, 0, 0), (0,), (0, 0)]
HARNESSES += [
    Harness('file-generator', h_file_generator, _gen_mods, encodes=_gen_enc,
            twins=('reversed',),
            cases={'quick': [{'lens': (2, 1), '_twins': 1}] + [{'lens': l} for l in _LENS_Q],
                   'thorough': [{'lens': (2, 1), '_twins': 1}] + [{'lens': l} for l in _LENS_T]},
            budget={'quick': {'max_paths': 2000}, 'thorough': {'max_paths': 20000,
                                                                'wall_s': 900}}),
    Harness('list-generator', h_list_generator, _gen_mods, encodes=_gen_enc,
            twins=('off-by-one',),
            cases={'quick': [{'n': 2, 'loop': True, 'draws': 3, '_twins': 1}] +
                   [{'n': n, 'loop': lp, 'draws': n + 2} for n in (1, 2, 3) for lp in (True, False)],
                   'thorough': [{'n': 2, 'loop': True, 'draws': 3, '_twins': 1}] +
                   [{'n': n, 'loop': lp, 'draws': 2 * n + 2} for n in (1, 2, 3, 4, 5)
                    for lp in (True, False)]}),
]

BOUNDS = {
    'quick': {'events per file': '1..4', 'slice_range': 'None, 1..n+1',
              'index table': 'start rows and lengths are solver integers (0..1000 each, '
              'contiguous per table): every row layout at once', 'indices': 'all -n..n-1 and '
              'the two nearest out-of-range ones', 'file generator': 'file lists of 1..3 files '
              'with 0..4 events, slice_range a solver integer in [1, total+2], total_thrown per '
              'file symbolic', 'slices': 'all 0<=start<stop<=n incl. None '
              'and negative spellings, step 1/None; steps 2,3 on n=4'},
    'thorough': {'events per file': '1..7', 'steps': '1..4'},
}
OUTSIDE = ["real HDF5 storage (in-memory model with the stated contract)",
           "files with more events than the bound", "string decoding of metadata"]
ASSUMPTIONS = ["h5py model: a dataset stores what is written where it is written; slicing "
               "follows numpy semantics"]
