"""C11 - HDF5 write/read round trip returns each event's own data for every configuration.

Encoded: HDF5Writer.__init__/open/add/_preset_all_indices/_write_indices/_write_particles/
_write_trigger/_write_ray_data/_write_noise_data/_write_waveforms/_write_metadata/
_create_dataset/_create_metadataset/set_detector/_check_trigger; EventIterator.__init__/
__next__/_load_data/_get_event_data/get_particle_info/get_rays_info/get_waveforms/triggered/
noise_bases/get_triggered_components; HDF5Reader.open/__len__/__iter__ (pyrex/io.py).
h5py is the in-memory model symx/h5model.py.
"""
import itertools
import numpy as np

from symx.explore import Harness
from symx import poly as P
from symx import h5model as H


def _mods():
    import pyrex.io
    import pyrex.particle
    import pyrex.internal_functions
    return [pyrex.io, pyrex.particle, pyrex.internal_functions]


def _enc():
    from pyrex.io import HDF5Writer as W, EventIterator as E, HDF5Reader as R
    return [W.__init__, W.open, W.add, W._preset_all_indices, W._write_indices,
            W._write_particles, W._write_trigger, W._write_ray_data, W._write_noise_data,
            W._write_waveforms, W._write_metadata, W._create_dataset, W._create_metadataset,
            W.set_detector, W._check_trigger, E.__init__, E.__next__, E._load_data,
            E._get_event_data, E.get_particle_info, E.get_rays_info, E.get_waveforms,
            E.triggered.fget, E.noise_bases.fget, E.get_triggered_components, R.open,
            R.__len__, R.__iter__]


class Env:
    shim = None
    saved = None


def _swaps(ex):
    import pyrex.io
    Env.shim = H.H5Shim()
    return [(pyrex.io, 'h5py', Env.shim)]


def _enter(ex):
    if not ex.sym:
        import pyrex.io
        Env.shim = H.H5Shim()
        Env.saved = pyrex.io.h5py
        pyrex.io.h5py = Env.shim


def _leave(ex):
    if not ex.sym:
        import pyrex.io
        pyrex.io.h5py = Env.saved


# ---------------------------------------------------------------------------------
# stubs for the objects handed to the writer

class StubInteraction:
    def __init__(self, particle, kind=None):
        self.kind = kind
        self.meta = {}

    @property
    def _metadata(self):
        return dict(self.meta)


class StubPath:
    def __init__(self, meta):
        self.meta = meta

    @property
    def _metadata(self):
        return dict(self.meta)


class StubWave:
    def __init__(self, times, values, trig):
        self.times = times
        self.values = values
        self.trig = trig


class StubNoise:
    def __init__(self, f, a, p):
        self.freqs, self.amps, self.phases = f, a, p


class StubAnt:
    def __init__(self, ex, i, with_noise):
        self.i = i
        self.meta = {'position_x': 1.0 * i, 'position_y': 0.0, 'position_z': -100.0 - i,
                     'z_axis_x': 0.0, 'z_axis_y': 0.0, 'z_axis_z': 1.0,
                     'x_axis_x': 1.0, 'x_axis_y': 0.0, 'x_axis_z': 0.0,
                     'class': 'StubAnt', 'threshold': 0.5 + i}
        self.all_waveforms = []
        self._noise_master = None
        self.with_noise = with_noise

    @property
    def _metadata(self):
        return dict(self.meta)

    def trigger(self, wave):
        return wave.trig


class Scenario:
    """One add(): its arguments and what a reader must later return for it."""

    def __init__(self, ex, k, spec, nant, opts):
        from pyrex.particle import Particle, Event
        self.k = k
        self.spec = spec
        npart = spec.get('particles', 1)
        parts = []
        self.part_meta = []
        for j in range(npart):
            E = ex.real('E_%d_%d' % (k, j), 1e3, 1e12)
            vx = ex.real('vx_%d_%d' % (k, j), -1e4, 1e4)
            p = Particle([12, -14, 16][(k + j) % 3], (vx, 2.0 * k, -10.0 * (j + 1)),
                         (0.0, 0.0, 1.0), E, interaction_model=StubInteraction,
                         interaction_type='cc' if (j % 2) else 'nc')
            p.interaction.meta = {'kind': 'cc' if (j % 2) else 'nc',
                                  'inelasticity': ex.real('y_%d_%d' % (k, j), 0, 1)}
            p.survival_weight = ex.real('sw_%d_%d' % (k, j), 0, 1)
            parts.append(p)
            self.part_meta.append(p._metadata)
        self.event = Event(parts[0])
        if len(parts) > 1:
            self.event.add_children(parts[0], parts[1:])
        # rays: per antenna a number of solutions
        rays = spec.get('rays', [1] * nant)
        self.ray_paths = []
        self.pols = []
        self.ray_meta = []
        for i in range(nant):
            ps, pl, ms = [], [], []
            for r in range(rays[i]):
                m = {'path_length': ex.real('L_%d_%d_%d' % (k, i, r), 0, 1e5),
                     'tof': 1e-6 * (i + 1) * (r + 1), 'solution_type': 'direct' if r == 0 else 'reflected'}
                pol = (ex.real('px_%d_%d_%d' % (k, i, r), -1, 1), 0.5, -0.25)
                ps.append(StubPath(m))
                pl.append(pol)
                mm = dict(m)
                mm.update({'polarization_x': pol[0], 'polarization_y': pol[1],
                           'polarization_z': pol[2]})
                ms.append(mm)
            self.ray_paths.append(ps)
            self.pols.append(pl)
            self.ray_meta.append(ms)
        if spec.get('bad') == 'short_paths':
            self.ray_paths = self.ray_paths[:-1]
        if spec.get('bad') == 'pol_mismatch':
            self.pols[0] = self.pols[0] + [(0.0, 0.0, 1.0)]
        if spec.get('bad') == 'no_rays':
            self.ray_paths = None
        # waveforms per antenna (the detector is shared: set before add)
        waves = spec.get('waves', rays)
        self.waves = []
        for i in range(nant):
            ws = []
            for r in range(waves[i]):
                ws.append(StubWave(np.array([0.0, 1.0]) + i, ex.array(
                    [ex.real('w_%d_%d_%d' % (k, i, r), -1, 1), 0.25 * r]),
                    bool(spec.get('ant_trig', [[True, False]] * nant)[i][r % 2])))
            self.waves.append(ws)
        self.noise = []
        for i in range(nant):
            if spec.get('noise', True):
                self.noise.append(StubNoise(ex.array([1e8, 2e8]),
                                            ex.array([ex.real('na_%d_%d' % (k, i), 0, 5), 1.0]),
                                            ex.array([0.5, ex.real('np_%d_%d' % (k, i), 0, 6)])))
            else:
                self.noise.append(None)
        t = spec.get('trig', True)
        self.triggered = t
        self.global_trig = t if isinstance(t, bool) else (t.get('global') if isinstance(t, dict)
                                                          else None)


def expect_written(opts, sc):
    """Which tables the options say to record for this add."""
    trig_only = {}
    rt = opts['require_trigger']
    keys = ['particles', 'triggers', 'antenna_triggers', 'waveforms', 'rays', 'noise']
    if isinstance(rt, bool):
        trig_only = {k: rt for k in keys}
        if rt:
            for k in ('particles', 'triggers', 'antenna_triggers'):
                trig_only[k] = False
    else:
        trig_only = {k: (k in rt) for k in keys}
    out = {}
    for k in keys:
        out[k] = bool(opts['write_' + k]) and (not trig_only[k] or bool(sc.global_trig))
    out['antenna_triggers'] = out['antenna_triggers'] and out['triggers']
    return out


def _val_eq(ex, got, want, label):
    if isinstance(want, str):
        g = got.decode() if isinstance(got, bytes) else got
        ex.same(g, want, label)
    else:
        ex.close(got, want, label, tol=0.0)


def h_roundtrip(ex):
    """k adds (some rejected) with the given options, then the real reader: as many events
    as accepted adds; the i-th event returns the i-th accepted add's particles, rays,
    global and component triggers, noise bases and waveforms - or nothing where the
    options say so."""
    from pyrex.io import HDF5Writer, HDF5Reader
    _enter(ex)
    try:
        opts = dict(ex.case['opts'])
        specs = ex.case['adds']
        nant = ex.case.get('nant', 2)
        w = HDF5Writer('t.h5', mode='w', **opts)
        w.open()
        ants = [StubAnt(ex, i, True) for i in range(nant)]
        w.set_detector(ants)
        accepted = []
        for k, spec in enumerate(specs):
            sc = Scenario(ex, k, spec, nant, opts)
            for i, a in enumerate(ants):
                a.all_waveforms = sc.waves[i]
                a._noise_master = sc.noise[i]
            try:
                w.add(sc.event, triggered=sc.triggered, ray_paths=sc.ray_paths,
                      polarizations=sc.pols, events_thrown=spec.get('thrown', 1))
                ok = True
            except (ValueError, TypeError, IndexError) as e:
                ok = False
                ex.same(bool(spec.get('bad')), True, 'only-bad-adds-are-rejected')
            if ok:
                must_reject = bool(spec.get('bad')) and spec.get('bad') != 'harmless'
                if spec.get('bad') == 'late_trigger':
                    # a per-waveform trigger list shorter than the number of waveforms is
                    # only looked at (and refused, AFTER the particle and trigger rows were
                    # appended) when this add records triggers
                    must_reject = expect_written(opts, sc)['triggers']
                ex.same(must_reject, False, 'bad-add-is-rejected')
                accepted.append(sc)
        w.close()
        rd = HDF5Reader('t.h5')
        rd.open()
        ex.same(len(rd), len(accepted), 'events-read==adds-accepted')
        if len(accepted) == 0:
            return
        opts = dict(opts, _any_particles=any(expect_written(opts, s_)['particles']
                                             for s_ in accepted),
                    _any_triggers=any(expect_written(opts, s_)['triggers'] for s_ in accepted))
        for sr in ex.case.get('slice_ranges', (None,)):
            rd._slice_range = len(accepted) if sr is None else sr
            n_seen = 0
            for ev, sc in zip(rd, accepted):
                n_seen += 1
                check_event(ex, ev, sc, opts, nant)
            ex.same(n_seen, len(accepted), 'iteration-visits-all-accepted')
    finally:
        _leave(ex)


def check_event(ex, ev, sc, opts, nant):
    wr = expect_written(opts, sc)
    tw = ex.twin
    # particles
    # (a file in which no event met the trigger requirement for particles holds no
    # particle table at all: asking for particle data is then refused with ValueError)
    any_particles = opts['write_particles'] and opts.get('_any_particles', True)
    if opts['write_particles'] and not any_particles:
        ex.raises(lambda: ev.get_particle_info(), (ValueError,),
                  'no-particle-table=>ValueError')
    if any_particles:
        info = ev.get_particle_info()
        if wr['particles']:
            ex.same(len(info), len(sc.part_meta), 'particle-count')
            for got, want in zip(info, sc.part_meta):
                for key, val in want.items():
                    if key not in got:
                        ex.fail('particle-key-missing:' + key)
                        continue
                    if tw == 'energy' and key == 'energy':
                        val = val * 2
                    _val_eq(ex, got[key], val, 'particle-' + key)
        else:
            ex.same(len(info), 0, 'no-particles-when-not-recorded')
    # global trigger
    if opts['write_triggers'] and not opts.get('_any_triggers', True):
        ex.raises(lambda: ev.triggered, (ValueError,), 'no-trigger-table=>ValueError')
    elif opts['write_triggers']:
        t = ev.triggered
        if wr['triggers']:
            ex.same(bool(t), bool(sc.global_trig), 'global-trigger')
        else:
            ex.same(t, None, 'no-trigger-when-not-recorded')
    # rays
    if opts['write_rays'] and ev._bool_dict.get('rays_meta_float', False):
        info = ev.get_rays_info()
        if wr['rays']:
            nrows = max(len(m) for m in sc.ray_meta)
            ex.same(len(info), nrows, 'ray-row-count')
            for r in range(nrows):
                for i in range(nant):
                    got = info[r][i]
                    if r < len(sc.ray_meta[i]):
                        for key, val in sc.ray_meta[i][r].items():
                            _val_eq(ex, got[key], val, 'ray-' + key)
                    else:
                        # an antenna with fewer solutions: nothing recorded in this row
                        _val_eq(ex, got['path_length'], 0.0, 'ray-absent-is-empty')
        else:
            ex.same(len(info), 0, 'no-rays-when-not-recorded')
    # component triggers
    comp_expected = (wr['antenna_triggers'] or (wr['triggers'] and isinstance(sc.triggered, dict)
                                                 and len(sc.triggered) > 1))
    if ev._bool_dict.get('mc_triggers', False) and wr['triggers']:
        if comp_expected:
            got = set(ev.get_triggered_components())
            want = set()
            if wr['antenna_triggers']:
                for i in range(nant):
                    if any(wv.trig for wv in sc.waves[i]):
                        want.add('antenna_%d' % i)
            if isinstance(sc.triggered, dict):
                nmax = max(len(wv) for wv in sc.waves)
                for key, val in sc.triggered.items():
                    if key == 'global':
                        continue
                    if (val if isinstance(val, bool) else any(val[:nmax])) and nmax > 0:
                        want.add(key)
            ex.same(sorted(got), sorted(want), 'component-triggers')
    # noise bases
    if opts['write_noise'] and ev._bool_dict.get('noise', False):
        nb = ev.noise_bases
        if wr['noise']:
            ex.same(len(nb), nant, 'noise-per-antenna')
            for i in range(nant):
                n = sc.noise[i]
                want = ([], [], []) if n is None else (n.freqs, n.amps, n.phases)
                for c in range(3):
                    ex.close(list(nb[i][c]), list(want[c]), 'noise-basis', tol=0.0)
        else:
            ex.same(len(nb), 0, 'no-noise-when-not-recorded')
    # waveforms
    if opts['write_waveforms'] and ev._bool_dict.get('waveforms', False):
        wf = ev.get_waveforms()
        if wr['waveforms']:
            nrows = max(len(wv) for wv in sc.waves)
            ex.same(len(wf), nrows, 'waveform-row-count')
            for r in range(nrows):
                for i in range(nant):
                    if r < len(sc.waves[i]):
                        ex.close(list(wf[r][i][0]), list(sc.waves[i][r].times), 'waveform-times',
                                 tol=0.0)
                        ex.close(list(wf[r][i][1]), list(sc.waves[i][r].values),
                                 'waveform-values', tol=0.0)
        else:
            ex.same(len(wf), 0, 'no-waveforms-when-not-recorded')


# ---------------------------------------------------------------------------------
# append sessions with symbolic counters (also serves C12's append clause)

def h_append(ex):
    """A file continued in append mode ('a' and 'r+'): the counters recovered by open() equal
    the row counts of every table (solver integers), the new events' index entries address
    exactly the rows written in this session, behind all earlier rows, and earlier index
    entries are untouched."""
    from pyrex.io import HDF5Writer, HDF5Reader
    _enter(ex)
    try:
        mode = ex.case['mode']
        opts = dict(ex.case['opts'])
        nant = 2
        # session 1: concrete, creates the tables
        w = HDF5Writer('t.h5', mode='w', **opts)
        w.open()
        ants = [StubAnt(ex, i, True) for i in range(nant)]
        w.set_detector(ants)
        first = []
        for k, spec in enumerate(ex.case['first']):
            sc = Scenario(ex, k, spec, nant, opts)
            for i, a in enumerate(ants):
                a.all_waveforms = sc.waves[i]
                a._noise_master = sc.noise[i]
            w.add(sc.event, triggered=sc.triggered, ray_paths=sc.ray_paths, polarizations=sc.pols)
            first.append(sc)
        w.close()
        f = Env.shim.store['t.h5']
        # let an arbitrary number of further rows exist in every table (as if more events
        # had been written): shift shapes by solver integers
        extra = {}
        tabs = ['/monte_carlo_data/particles/str', '/monte_carlo_data/particles/float',
                '/data/triggers', '/monte_carlo_data/rays/str', '/monte_carlo_data/rays/float',
                '/monte_carlo_data/triggers', '/monte_carlo_data/noise', '/data/waveforms']
        base = {}
        for t in tabs:
            if t in f:
                ds = f[t]
                grp = t.rsplit('/', 1)[0] if t.endswith(('/str', '/float')) else t
                if grp not in extra:
                    extra[grp] = ex.integer('extra_%d' % len(extra), 0, 500)
                ds.resize(ds.shape[0] + extra[grp], axis=0)
                base[t] = ds.shape[0]
        n0 = len(first)
        w2 = HDF5Writer('t.h5', mode=mode, **opts)
        w2.open()
        w2.set_detector(ants) if False else None
        w2._detector = ants
        # counters recovered == row counts
        loc = w2._data_locs
        for key, cnt in w2._counters.items():
            if key == 'indices':
                ex.close(cnt, n0, 'recovered-event-counter', tol=0.0)
                continue
            val = loc[key]
            if key.endswith('meta'):
                if val + '/float' in f:
                    ex.close(cnt, f[val + '/float'].shape[0] if ex.twin != 'zero' else 0,
                             'recovered-counter-' + key, tol=0.0)
            elif val in f:
                ex.close(cnt, f[val].shape[0], 'recovered-counter-' + key, tol=0.0)
        logs_before = {t: len(f[t].log) for t in tabs if t in f}
        idx = f['/event_indices']
        idx_log_before = len(idx.log)
        second = []
        for k, spec in enumerate(ex.case['second']):
            sc = Scenario(ex, 10 + k, spec, nant, opts)
            for i, a in enumerate(ants):
                a.all_waveforms = sc.waves[i]
                a._noise_master = sc.noise[i]
            w2.add(sc.event, triggered=sc.triggered, ray_paths=sc.ray_paths, polarizations=sc.pols)
            second.append(sc)
        w2.close()
        # all writes of session 2 land at rows >= the table's previous length
        for t in tabs:
            if t not in f or t not in base:
                continue
            for (key, val) in f[t].log[logs_before[t]:]:
                ex.true(P.cmp(key[0], base[t], '>='), 'append-writes-behind-existing-rows')
        # index rows of session 1 are not rewritten
        for (key, val) in idx.log[idx_log_before:]:
            ex.same(key[0] >= n0, True, 'earlier-index-rows-untouched')
        # the reader sees n0 + len(second) events; the new ones address the new rows
        rd = HDF5Reader('t.h5')
        rd.open()
        ex.same(len(rd), n0 + len(second), 'events==both-sessions')
        keys = [k for k in idx.attrs['keys']]
        cur = dict(base)
        for j, sc in enumerate(second):
            wr = expect_written(opts, sc)
            for t_i, name in enumerate(keys):
                st, ln = idx[n0 + j, t_i]
                tab = name + '/float' if name + '/float' in f else name
                if tab not in cur:
                    continue
                want_len = {'/monte_carlo_data/particles': len(sc.part_meta) if wr['particles'] else 0,
                            '/data/triggers': 1 if wr['triggers'] else 0,
                            '/monte_carlo_data/rays': max(len(m) for m in sc.ray_meta)
                            if wr['rays'] else 0,
                            '/monte_carlo_data/noise': 1 if wr['noise'] else 0,
                            '/data/waveforms': max(len(x) for x in sc.waves)
                            if wr['waveforms'] else 0,
                            '/monte_carlo_data/triggers': max(len(x) for x in sc.waves)
                            if (wr['triggers'] and (wr['antenna_triggers'] or (
                                isinstance(sc.triggered, dict) and len(sc.triggered) > 1)))
                            else 0}.get(name)
                if want_len is None:
                    continue
                ex.close(st, cur[tab], 'appended-event-start-row:' + name, tol=0.0)
                ex.close(ln, want_len, 'appended-event-row-count:' + name, tol=0.0)
                cur[tab] = cur[tab] + want_len
                if tab.endswith('/float') and name + '/str' in cur:
                    cur[name + '/str'] = cur[name + '/str'] + want_len
        for t in cur:
            ex.close(f[t].shape[0], cur[t], 'table-length==last-event-end:' + t, tol=0.0)
    finally:
        _leave(ex)


DEF = dict(write_particles=True, write_triggers=True, write_antenna_triggers=False,
           write_rays=True, write_noise=False, write_waveforms=False, require_trigger=True)


def O(**kw):
    d = dict(DEF)
    d.update(kw)
    return d


ALL_ON = O(write_antenna_triggers=True, write_noise=True, write_waveforms=True)
A1 = {'particles': 1, 'rays': [1, 1], 'trig': True}
A2 = {'particles': 2, 'rays': [2, 1], 'trig': False}
A3 = {'particles': 1, 'rays': [0, 2], 'trig': {'global': True, 'extra': False, 'per_wave': [True, False]}}
A4 = {'particles': 2, 'rays': [1, 2], 'trig': {'global': False, 'extra': True}, 'noise': False}
A0 = {'particles': 1, 'rays': [0, 0], 'trig': True}
BAD1 = {'particles': 1, 'rays': [1, 1], 'trig': True, 'bad': 'short_paths'}
BAD2 = {'particles': 2, 'rays': [1, 1], 'trig': True, 'bad': 'pol_mismatch'}
BAD3 = {'particles': 1, 'rays': [1, 1], 'trig': True, 'bad': 'no_rays'}
# rejected late: the list of per-waveform triggers is shorter than the 2 waveforms of antenna 0
BAD4 = {'particles': 2, 'rays': [2, 1], 'trig': {'global': True, 'per_wave': [True]},
        'bad': 'late_trigger'}

Q_OPTS = [DEF, ALL_ON, O(require_trigger=False, write_noise=True, write_waveforms=True),
          O(require_trigger=['rays', 'waveforms'], write_waveforms=True, write_antenna_triggers=True),
          O(write_rays=False, write_waveforms=True, write_noise=True),
          O(write_antenna_triggers=True, require_trigger=['antenna_triggers'])]
Q_ADDS = [[A1, A2, A3], [A2, A1], [A3, A4, A1], [A1, BAD1, A2], [BAD2, A1, A3], [A2, BAD3, A4],
          [A0, A3], [A4, A1, A3], [A1, BAD3], [A1, A2, BAD1], [A3, BAD2],
          [A1, BAD4, A2], [BAD4, A3, A1], [A2, A1, BAD4], [A2, BAD4, BAD4, A3]]


def _rt_cases(opts_list, adds_list, srs=((None, 1),)):
    out = []
    for o in opts_list:
        for a in adds_list:
            if not o['write_rays'] and any(x.get('bad') for x in a):
                continue
            out.append({'opts': o, 'adds': a, 'slice_ranges': srs[0]})
    return out


def _all_opts():
    out = []
    for bits in itertools.product((False, True), repeat=5):
        wp, wt, wat, wr, wn = bits
        if wat and not wt:
            continue
        if not wp:
            continue          # the property quantifies over configurations that record particles
        for ww in (False, True):
            for rt in (True, False, ['rays'], ['waveforms', 'noise'], ['particles', 'triggers']):
                out.append(dict(write_particles=wp, write_triggers=wt, write_antenna_triggers=wat,
                                write_rays=wr, write_noise=wn, write_waveforms=ww,
                                require_trigger=rt))
    return out


KN_ORPHAN = ("an add() rejected because ray_paths/polarizations do not match the detector is "
             "refused only after the particle (and trigger) rows were written and "
             "total_thrown was increased")

HARNESSES = [
    Harness('roundtrip', h_roundtrip, _mods, encodes=_enc, extra_swaps=_swaps, twins=('energy',),
            cases={'quick': [{'opts': DEF, 'adds': [A1, A2], 'slice_ranges': (None,), '_twins': 1}]
                   + _rt_cases(Q_OPTS, Q_ADDS),
                   'thorough': [{'opts': DEF, 'adds': [A1, A2], 'slice_ranges': (None,),
                                 '_twins': 1}] + _rt_cases(_all_opts(), Q_ADDS + [[A1, A2, A3, A4]],
                                                           srs=((None, 1, 2),))},
            budget={'quick': {'wall_s': 200}, 'thorough': {'wall_s': 600}}),
    Harness('append', h_append, _mods, encodes=_enc, extra_swaps=_swaps, twins=('zero',),
            cases={'quick': [{'mode': m, 'opts': o, 'first': fs, 'second': sn}
                             for m in ('a', 'r+') for o in (DEF, ALL_ON)
                             for (fs, sn) in (([A1], [A2, A3]), ([A1, A2], [A1]))],
                   'thorough': [{'mode': m, 'opts': o, 'first': fs, 'second': sn}
                                for m in ('a', 'r+') for o in Q_OPTS
                                for (fs, sn) in (([A1], [A2, A3]), ([A1, A2], [A1]),
                                                 ([A3], [A4, A1, A2]), ([A1, A2, A3], [A4]))]}),
]

BOUNDS = {
    'quick': {'adds per file': '2..4 (incl. adds rejected for their ray data or, late, for a short per-waveform trigger list, at each position)',
              'particles per event': '1..2', 'ray solutions per antenna': '0..2',
              'detector': '2 antennas', 'options': '5 combinations of the six write_* flags and '
              'require_trigger (bool and lists)', 'payload': 'energies, vertices, weights, path '
              'lengths, polarizations, waveform samples, noise amplitudes/phases symbolic',
              'append': "modes 'a' and 'r+', every table already holding an arbitrary (solver "
              "integer) number of further rows"},
    'thorough': {'options': 'all 200 combinations that record particles x require_trigger in '
                 '{True, False, 3 lists}', 'adds': 'up to 4', 'chunk sizes': 'None, 1, 2'},
}
OUTSIDE = ["real HDF5 storage and string encoding (in-memory model)", "file_version 1.0",
           "analysis groups", "detectors of more than 2 antennas"]
ASSUMPTIONS = ["h5py model: datasets store what is written where it is written; resize keeps "
               "rows; unwritten cells read as the fill value; vlen strings read back as bytes"]
