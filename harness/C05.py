"""C05 - frequency filtering is linear, real-preserving, passive, free of wrap-around.

Encoded (executed symbolically, real code): Signal.filter_frequencies,
Signal._get_filter_response, Signal.dt, Signal.__init__ (pyrex/signals.py).
"""
import cmath
import math
import numpy as np

from symx.explore import Harness
from symx import poly as P


def _mods():
    import pyrex.signals
    return [pyrex.signals]


def _enc():
    from pyrex.signals import Signal
    return [Signal.filter_frequencies, Signal._get_filter_response, Signal.dt, Signal.__init__]


TOL = 1e-11


def mk_times(ex, N, dt, t0):
    return ex.array([t0 + i * dt for i in range(N)])


class Response:
    """An arbitrary response on the (concrete) frequency grid of a length-2N transform:
    one free complex number per distinct signed frequency bin."""

    def __init__(self, ex, N, dt, tag='H', bound=2.0, scalar_only=False, scale=None,
                 unit_disc=False, dc_int=None):
        self.dc_int = dc_int
        self.ex = ex
        self.n = 2 * N
        self.df = 1.0 / (self.n * dt)
        self.vals = {}
        self.tag = tag
        self.bound = bound
        self.scalar_only = scalar_only
        self.scale = scale
        self.unit_disc = unit_disc
        self.__name__ = 'response_' + tag
        self.calls = 0

    def _bin(self, f):
        k = int(round(float(f) / self.df))
        return k

    def _val(self, k):
        if k == 0 and self.dc_int is not None:
            return self.dc_int          # a response that returns a Python int at DC
        if k not in self.vals:
            nm = '%s_%s%d' % (self.tag, 'm' if k < 0 else 'p', abs(k))
            re = self.ex.real(nm + '_re', -self.bound, self.bound)
            im = self.ex.real(nm + '_im', -self.bound, self.bound)
            if self.unit_disc:
                self.ex.assume(re * re + im * im <= 1)
            self.vals[k] = (re, im)
        re, im = self.vals[k]
        if self.scale is not None:
            re, im = re * self.scale, im * self.scale
        if self.ex.sym:
            return P.cmk(re, im)
        return complex(re, im)

    def __call__(self, f):
        self.calls += 1
        if np.ndim(f) > 0:
            if self.scalar_only:
                raise TypeError("scalar-only response")
            out = [self._val(self._bin(x)) for x in f]
            if self.ex.sym:
                return self.ex.array(out)
            return np.array(out, dtype=complex)
        return self._val(self._bin(f))


def ref_filter(ex, xs, Hfun, N, dt, force_real):
    """Independent O(n^2) reference: Re( IDFT_2N( Hsym * DFT_2N(x zero-padded) ) )[:N]."""
    n = 2 * N
    pad = list(xs) + [0.0] * N
    freqs = [(k if k < (n + 1) // 2 else k - n) / (n * dt) for k in range(n)]
    H = []
    for f in freqs:
        if force_real:
            h = Hfun(abs(f))
            if f < 0:
                h = h.conjugate() if not isinstance(h, complex) else h.conjugate()
            H.append(h)
        else:
            H.append(Hfun(f))
    X = []
    for k in range(n):
        acc = 0.0
        for j in range(n):
            w = cmath.exp(-2j * math.pi * ((k * j) % n) / n)
            acc = acc + pad[j] * w
        X.append(acc)
    out = []
    for i in range(N):
        acc = 0.0
        for k in range(n):
            w = cmath.exp(2j * math.pi * ((k * i) % n) / n)
            acc = acc + (H[k] * X[k]) * w
        acc = acc / n
        out.append(acc.real if not isinstance(acc, (float, int)) else acc)
    return out


def _signal(ex, N, dt, t0, xs):
    from pyrex.signals import Signal
    return Signal(mk_times(ex, N, dt, t0), ex.array(xs))


def h_linear(ex):
    """filter(a x + b y) == a filter(x) + b filter(y); filter(x; cH) == c filter(x; H)."""
    N, dt, fr = ex.case['N'], ex.case['dt'], ex.case['force_real']
    xs = ex.reals('x', N, -1, 1)
    ys = ex.reals('y', N, -1, 1)
    a = ex.real('a', -2, 2)
    b = ex.real('b', -2, 2)
    t0 = ex.real('t0', -1e3, 1e3)
    H = Response(ex, N, dt)
    sx = _signal(ex, N, dt, t0, xs)
    sy = _signal(ex, N, dt, t0, ys)
    comb = [a * x + b * y for x, y in zip(xs, ys)]
    if ex.twin == 'drop-b':
        comb = [a * x for x, y in zip(xs, ys)]
    sc = _signal(ex, N, dt, t0, comb)
    for s in (sx, sy, sc):
        s.filter_frequencies(H, force_real=fr)
    ex.close(sc.values, [a * u + b * v for u, v in zip(sx.values, sy.values)], 'linear-in-signal',
             tol=TOL)
    ex.same(len(sc.values), N, 'one-value-per-sample')
    # homogeneity in the response (real scalar)
    c = ex.real('c', -2, 2)
    Hc = Response(ex, N, dt)
    Hc.vals = H.vals
    Hc.scale = c
    sh = _signal(ex, N, dt, t0, xs)
    sh.filter_frequencies(Hc, force_real=fr)
    ex.close(sh.values, [c * u for u in sx.values], 'homogeneous-in-response', tol=TOL)


def h_identity_offset(ex):
    """unit response = identity; result independent of the absolute grid position;
    times untouched."""
    N, dt, fr = ex.case['N'], ex.case['dt'], ex.case['force_real']
    xs = ex.reals('x', N, -1, 1)
    t0 = ex.real('t0', -1e3, 1e3)
    s = _signal(ex, N, dt, t0, xs)
    one = 1.0 if ex.twin != 'gain2' else 2.0
    s.filter_frequencies(lambda f: np.ones(len(f)) * one if np.ndim(f) else one, force_real=fr)
    ex.close(s.values, xs, 'unit-response-identity', tol=TOL)
    ex.close(s.times, [t0 + i * dt for i in range(N)], 'times-untouched', tol=0.0)
    H = Response(ex, N, dt)
    s1 = _signal(ex, N, dt, t0, xs)
    s2 = _signal(ex, N, dt, 0.0, xs)
    s1.filter_frequencies(H, force_real=fr)
    s2.filter_frequencies(H, force_real=fr)
    ex.close(s1.values, s2.values, 'offset-free', tol=TOL)


def h_reference(ex):
    """output == Re(IDFT(Hsym * DFT(zero-padded x)))[:N] with Hsym the Hermitian
    symmetrisation when force_real, for vectorised and scalar-only responses."""
    N, dt, fr = ex.case['N'], ex.case['dt'], ex.case['force_real']
    xs = ex.reals('x', N, -1, 1)
    t0 = ex.real('t0', -1e3, 1e3)
    H = Response(ex, N, dt)
    s = _signal(ex, N, dt, t0, xs)
    s.filter_frequencies(H, force_real=fr)
    want = ref_filter(ex, xs, H, N, dt, fr if ex.twin != 'no-mirror' else False)
    ex.close(s.values, want, 'equals-reference-transform', tol=TOL)
    Hs = Response(ex, N, dt, scalar_only=True)
    Hs.vals = H.vals
    s2 = _signal(ex, N, dt, t0, xs)
    s2.filter_frequencies(Hs, force_real=fr)
    ex.close(s2.values, s.values, 'scalar-fallback-same', tol=TOL)
    ex.true(Hs.calls > 1, 'scalar-fallback-taken')
    # a response whose DC value is the Python int 1 (e.g. `if f == 0: return 1`)
    Hi = Response(ex, N, dt, scalar_only=True, dc_int=1)
    Hi.vals = H.vals
    Hv = Response(ex, N, dt, dc_int=1)
    Hv.vals = H.vals
    s3 = _signal(ex, N, dt, t0, xs)
    s3.filter_frequencies(Hi, force_real=fr)
    ex.close(s3.values, ref_filter(ex, xs, Hv, N, dt, fr), 'scalar-fallback-int-at-dc', tol=TOL)


def h_response_kept(ex):
    """a vectorised response that hands out an array it keeps (tabulated/memoised, already
    complex): filtering leaves that array untouched, and a second signal filtered with the
    same response object gets the same reference transform as the first (the response is
    an argument, not scratch space)."""
    N, dt, fr = ex.case['N'], ex.case['dt'], ex.case['force_real']
    xs = ex.reals('x', N, -1, 1)
    ys = ex.reals('y', N, -1, 1)
    H = Response(ex, N, dt)
    kept = {}

    def table(f):
        if np.ndim(f) == 0:
            return H(f)
        key = tuple(float(x) for x in f)
        if key not in kept:
            arr = H(f)
            kept[key] = (arr, [complex(v) if not ex.sym else v for v in arr])
        return kept[key][0]
    s = _signal(ex, N, dt, 0.0, xs)
    s.filter_frequencies(table, force_real=fr)
    for arr, snapshot in kept.values():
        ex.close(list(arr), snapshot, 'response-array-not-modified', tol=0.0)
    s2 = _signal(ex, N, dt, 0.0, ys)
    s2.filter_frequencies(table, force_real=fr)
    want = ref_filter(ex, ys, H, N, dt, fr if ex.twin != 'no-mirror' else False)
    ex.close(s2.values, want, 'second-use-of-the-same-response==reference', tol=TOL)
    ex.true(len(kept) >= 1, 'vectorised-path-taken')


def h_delay(ex):
    """pure delay of m samples: y_i = x_{i-m} (i>=m), 0 (i<m): no wrap-around."""
    N, dt, fr, m = ex.case['N'], ex.case['dt'], ex.case['force_real'], ex.case['m']
    xs = ex.reals('x', N, -1, 1)
    t0 = ex.real('t0', -1e3, 1e3)
    s = _signal(ex, N, dt, t0, xs)

    def delay(f):
        return np.exp(-2j * np.pi * f * (m * dt))
    s.filter_frequencies(delay, force_real=fr)
    want = [xs[i - m] if i >= m else 0.0 for i in range(N)]
    if ex.twin == 'wrap':
        want = [xs[(i - m) % N] for i in range(N)]
    ex.close(s.values, want, 'delay-no-wraparound', tol=TOL)


def h_passive(ex):
    """|H| <= 1 everywhere  =>  sum(out^2) <= sum(in^2), as a chain of solver-checked
    lemmas over the terms the code produced (DESIGN C03.7/C05): out = Re(y)[:N] with
    y = IDFT(Hsym X), X = DFT(pad x); truncation+real part <= full complex energy;
    per-bin |Hsym_k X_k|^2 <= |X_k|^2; Parseval for the length-2N DFT on both sides."""
    N, dt, fr = ex.case['N'], ex.case['dt'], ex.case['force_real']
    n = 2 * N
    xs = ex.reals('x', N, -1, 1)
    H = Response(ex, N, dt, bound=1.0, unit_disc=(ex.twin != 'gain'))
    s = _signal(ex, N, dt, 0.0, xs)
    s.filter_frequencies(H, force_real=fr)
    out = list(s.values)
    # reference internals (harness-side transform, independent of the shim's DFT)
    pad = list(xs) + [0.0] * N
    freqs = [(k if k < (n + 1) // 2 else k - n) / (n * dt) for k in range(n)]
    Hs = []
    for f in freqs:
        h = H(abs(f)) if fr else H(f)
        if fr and f < 0:
            h = h.conjugate()
        Hs.append(h)
    W = [[cmath.exp(-2j * math.pi * ((k * j) % n) / n) for j in range(n)] for k in range(n)]
    X = [sum((pad[j] * W[k][j] for j in range(n)), 0.0) for k in range(n)]
    Pk = [Hs[k] * X[k] for k in range(n)]
    y = [sum((Pk[k] * W[k][i].conjugate() for k in range(n)), 0.0) / n for i in range(n)]
    re = (lambda z: z.real)
    im = (lambda z: z.imag)
    ex.close(out, [re(y[i]) for i in range(N)], 'passive.out=Re(IDFT(H.DFT(x)))[:N]', tol=TOL)
    # (a) truncation and real part: generalised over arbitrary y
    gy = [(ex.real('gyr%d' % i, -4, 4), ex.real('gyi%d' % i, -4, 4)) for i in range(n)]
    ex.le(sum(gy[i][0] * gy[i][0] for i in range(N)),
          sum(a * a + b * b for a, b in gy), 'passive.truncation<=full', tol=0.0)
    # (b) per-bin: |h|<=1 -> |h X|^2 <= |X|^2, generalised over arbitrary X_k
    for k in range(n):
        gx = (ex.real('gxr', -2 * n, 2 * n), ex.real('gxi', -2 * n, 2 * n))
        h = Hs[k]
        hr, hi = (h.real, h.imag)
        pr = hr * gx[0] - hi * gx[1]
        pi = hr * gx[1] + hi * gx[0]
        ex.le(pr * pr + pi * pi, gx[0] * gx[0] + gx[1] * gx[1], 'passive.bin<=1', tol=1e-12)
    # (c) Parseval for this n: sum|X|^2 = n sum pad^2 on the input side (terms in x) ...
    eX = sum(re(v) * re(v) + im(v) * im(v) for v in X)
    e_in = sum(x * x for x in xs)
    ex.close(eX, n * e_in, 'passive.parseval-input', tol=1e-10)
    # ... and sum|y|^2 = (1/n) sum|P|^2 generalised over arbitrary P_k
    gp = [(ex.real('gpr%d' % k, -2 * n, 2 * n), ex.real('gpi%d' % k, -2 * n, 2 * n))
          for k in range(n)]
    ey = 0.0
    for i in range(n):
        ar = 0.0
        ai = 0.0
        for k in range(n):
            w = W[k][i].conjugate()
            ar = ar + gp[k][0] * w.real - gp[k][1] * w.imag
            ai = ai + gp[k][0] * w.imag + gp[k][1] * w.real
        ey = ey + (ar * ar + ai * ai) / (n * n)
    eP = sum(a * a + b * b for a, b in gp) / n
    ex.close(ey, eP, 'passive.parseval-output', tol=1e-9)
    if N <= ex.case.get('mono', 0):
        ex.le(sum(v * v for v in out), e_in, 'passive.monolithic', tol=1e-9)


def _cases(Ns, dts=(1e-10, 1.0), frs=(True, False)):
    return [{'N': N, 'dt': dt, 'force_real': fr} for N in Ns for dt in dts for fr in frs]


def _delay_cases(Ns, dts=(1e-10, 1.0)):
    return [{'N': N, 'dt': dt, 'force_real': fr, 'm': m}
            for N in Ns for dt in dts for fr in (True, False) for m in range(0, N)]


HARNESSES = [
    Harness('linear', h_linear, _mods, encodes=_enc, twins=('drop-b',),
            cases={'quick': _cases([2, 3, 4], dts=(1e-10,)) + _cases([5], dts=(1.0,)),
                   'thorough': _cases([2, 3, 4, 5, 6, 7, 8])},
            doc=h_linear.__doc__),
    Harness('identity-offset', h_identity_offset, _mods, encodes=_enc, twins=('gain2',),
            cases={'quick': _cases([2, 3, 4, 5]), 'thorough': _cases(list(range(2, 13)))},
            doc=h_identity_offset.__doc__),
    Harness('reference', h_reference, _mods, encodes=_enc, twins=('no-mirror',),
            cases={'quick': [{'N': 3, 'dt': 1e-10, 'force_real': True, '_twins': 1}]
                   + _cases([2, 4, 5], dts=(1e-10,)) + _cases([3], dts=(1.0,)),
                   'thorough': [{'N': 3, 'dt': 1e-10, 'force_real': True, '_twins': 1}]
                   + _cases([2, 3, 4, 5, 6, 7, 8])},
            doc=h_reference.__doc__),
    Harness('response-kept', h_response_kept, _mods, encodes=_enc, twins=('no-mirror',),
            cases={'quick': [{'N': 3, 'dt': 1e-10, 'force_real': True, '_twins': 1},
                             {'N': 4, 'dt': 1e-10, 'force_real': True},
                             {'N': 3, 'dt': 1e-10, 'force_real': False}],
                   'thorough': [{'N': 3, 'dt': 1e-10, 'force_real': True, '_twins': 1}]
                   + _cases([2, 4, 5, 6])},
            doc=h_response_kept.__doc__),
    Harness('delay', h_delay, _mods, encodes=_enc, twins=('wrap',),
            cases={'quick': [{'N': 4, 'dt': 1e-10, 'force_real': True, 'm': 1, '_twins': 1}]
                   + _delay_cases([2, 3, 4, 5], dts=(1e-10,)),
                   'thorough': [{'N': 4, 'dt': 1e-10, 'force_real': True, 'm': 1, '_twins': 1}]
                   + _delay_cases([2, 3, 4, 5, 6, 7, 8, 9, 10])},
            doc=h_delay.__doc__),
    Harness('passive', h_passive, _mods, encodes=_enc, twins=('gain',),
            cases={'quick': _cases([2, 3, 4], dts=(1.0,)),
                   'thorough': _cases([2, 3, 4, 5, 6, 7, 8])},
            budget={'quick': {'query_timeout_ms': 60000}, 'thorough': {'query_timeout_ms': 120000,
                                                                        'wall_s': 900}},
            doc=h_passive.__doc__),
]

def _function_signal_harness():
    """filtering a function-backed signal (with buffers): C06's eager-definition oracle -
    the function sampled on the buffer-extended grid, transformed ONCE at twice that
    length, cropped to the signal's times - restricted to the filter sequences; a filter
    applied to buffered content must not wrap it into the window"""
    from harness import C06
    h = [x for x in C06.HARNESSES if x.name == 'signal-sequences'][0]
    seqs = [['setbuf', 'filter_real'], ['setbuf', 'filter'], ['with_times_sub', 'filter_real'],
            ['filter_real', 'setbuf'], ['setbuf_force', 'filter_real']]
    cases = {'quick': [{'n': 3, 'seq': s} for s in seqs[:3]] + [{'n': 4, 'seq': seqs[0]}],
             'thorough': [{'n': n, 'seq': s} for s in seqs for n in (2, 3, 4)]}
    cases['quick'][0]['_twins'] = 1
    cases['thorough'][0]['_twins'] = 1
    return Harness('function-signal-filter', h.fn, h.modules, cases=cases, twins=h.twins,
                   encodes=h.encodes, budget=h.budget, doc=_function_signal_harness.__doc__)


HARNESSES.append(_function_signal_harness())

BOUNDS = {
    'quick': {'N': '2..5 samples (1..2 for the energy inequality)', 'dt': '1e-10 s and 1 s',
              'samples': '[-1,1] each, symbolic', 't0': '[-1e3,1e3] symbolic',
              'response': 'one free complex number in [-2,2]^2 per frequency bin '
                          '(any response function on that grid)', 'delay': 'all m in 0..N-1'},
    'thorough': {'N': '1..8 (identity/offset 1..12, delay 1..10, energy 1..3)',
                 'dt': '1e-10 s and 1 s'},
}
OUTSIDE = ["signal lengths beyond the listed N (the algorithm's only size-dependent branch, "
           "odd/even N, is covered)", "the warning heuristic (logging is a no-op stub)",
           "IEEE rounding: tolerance 1e-11 absolute for samples in [-1,1]",
           "energy inequality beyond N=2 (quick) / N=3 (thorough): nonlinear real arithmetic "
           "does not finish"]
ASSUMPTIONS = ["scipy.fft.fft/ifft compute the DFT/IDFT (the shim's O(n^2) DFT is compared "
               "with scipy on random inputs on every run)"]
