"""C01 - every ray-trace solution is a true ray joining its two endpoints.

Encoded: SpecializedRayTracePath._int_terms/_distance_integral/_pathlen_integral/
_tof_integral/_z_int_uniform_correction/z_integral/path_length/tof;
BasicRayTracePath.theta/beta/emitted_direction/received_direction;
BasicRayTracer.z0/z1/n0/max_angle/_direct_r/_get_launch_angle/direct_angle/solutions;
SpecializedRayTracer._r_distance/_direct_r (pyrex/ray_tracing.py); AntarcticIce.index.
"""
import math
import numpy as np
import scipy.constants

from symx.explore import Harness
from symx import poly as P
from harness.common import UFun


def _mods():
    import pyrex.ray_tracing
    import pyrex.ice_model
    import pyrex.internal_functions
    return [pyrex.ray_tracing, pyrex.ice_model, pyrex.internal_functions]


def _enc():
    import pyrex.ray_tracing as rt
    S, B, T, ST = (rt.SpecializedRayTracePath, rt.BasicRayTracePath, rt.BasicRayTracer,
                   rt.SpecializedRayTracer)
    return [S._int_terms, S._distance_integral, S._pathlen_integral, S._tof_integral,
            S._z_int_uniform_correction, S.z_integral, S.path_length.fget, S.tof.fget,
            B.theta, B.beta.fget, B.emitted_direction.fget, B.received_direction.fget,
            T._direct_r, T._get_launch_angle, T.direct_angle.fget, T.solutions.fget,
            ST._r_distance, ST._direct_r]


class Ice:
    """an exponential-profile ice with symbolic parameters (Antarctic, AraSim, Greenland and
    arbitrary n0, k, a are instances)"""

    def __init__(self, n0, k, a):
        self.n0, self.k, self.a = n0, k, a
        self.valid_range = (-3000.0, 0.0)


C = scipy.constants.c


def h_antiderivative(ex):
    """d/dz of the closed-form distance / path-length / time-of-flight integrals equals
    tan(theta), sec(theta), n sec(theta)/c with sin(theta) = beta/n(z): shallow branch
    against n(z) = n0 - k e^{az}, deep branch against n = n0; for ALL n0, k, a, beta, z
    (forward-mode derivative of the real functions)."""
    import pyrex.ray_tracing as rt
    S = rt.SpecializedRayTracePath
    which, deep = ex.case['which'], ex.case['deep']
    n0 = ex.real('n0', 1.2, 2.5)
    k = ex.real('k', 0.05, 1.0)
    a = ex.real('a', 0.001, 0.1)
    ex.assume(k < n0 - 1)
    z = ex.real('z', -3000, 0)
    beta = ex.real('beta', 0.01, 2.5)
    ice = Ice(n0, k, a)
    f = {'distance': S._distance_integral, 'pathlen': S._pathlen_integral,
         'tof': S._tof_integral}[which]
    E = np.exp(a * z)
    n_z = n0 - k * E if not deep else n0
    # the ray exists at this depth: beta < n(z)
    ex.assume(beta < n_z - 1e-3)
    root = np.sqrt(n_z * n_z - beta * beta)
    want = {'distance': beta / root, 'pathlen': n_z / root, 'tof': n_z * n_z / root / C}[which]
    if which == 'tof' and deep:
        # the deep branch of the tof integral keeps the true index in the numerator:
        # n(z) n0 / sqrt(n0^2 - beta^2) / c
        nn = n0 - k * E
        want = n0 * nn / np.sqrt(n0 * n0 - beta * beta) / C
    if ex.twin == 'double':
        want = 2 * want
    scale = C if which == 'tof' else 1.0
    label = 'dF/dz==integrand:%s:%s' % (which, 'deep' if deep else 'shallow')
    if ex.sym:
        F = f(P.dual(z), beta, ice, deep=deep)
        ex.equal(P.tangent(F) * scale, want * scale, label)
    else:
        # the closed forms cancel heavily in float (F ~ 1e3-1e4 from terms that nearly cancel):
        # a central difference needs a step large enough to stay above that noise
        h = 0.05
        dF = (float(f(z + h, beta, ice, deep=deep)) - float(f(z - h, beta, ice, deep=deep))) / (2 * h)
        ex.close(dF * scale, want * scale, label, tol=1e-4)


def h_uniform_correction(ex):
    """_z_int_uniform_correction with an arbitrary antiderivative pair (F_shallow, F_deep):
    same side: F(z1)-F(z0); across z_uniform: the sum of the two one-sided differences, for
    either direction of integration."""
    import pyrex.ray_tracing as rt
    S = rt.SpecializedRayTracePath
    Fs = UFun(ex, 'Fs', lo=-1e4, hi=1e4, concrete=lambda z: 0.3 * z + math.sin(z / 100.0))
    Fd = UFun(ex, 'Fd', lo=-1e4, hi=1e4, concrete=lambda z: 0.7 * z + 5.0)

    def integrand(zz, beta, ice, deep=False):
        return Fd(zz) if deep else Fs(zz)
    z0 = ex.real('z0', -2000, 0)
    z1 = ex.real('z1', -2000, 0)
    zu = ex.real('zu', -1500, -100)
    ex.assume(P.sb_or(z0 - zu >= 2e-3, zu - z0 >= 2e-3) if ex.sym else abs(z0 - zu) >= 1e-3)
    ex.assume(P.sb_or(z1 - zu >= 2e-3, zu - z1 >= 2e-3) if ex.sym else abs(z1 - zu) >= 1e-3)
    got = S._z_int_uniform_correction(z0, z1, zu, 0.5, None, integrand)
    d0 = (z0 < zu)
    d1 = (z1 < zu)
    F = lambda zz, deep: Fd(zz) if deep else Fs(zz)
    if bool(d0) == bool(d1):
        want = F(z1, bool(d1)) - F(z0, bool(d0))
    else:
        # from z0 to zu on z0's side, then from zu to z1 on z1's side
        want = (F(zu, bool(d0)) - F(z0, bool(d0))) + (F(z1, bool(d1)) - F(zu, bool(d1)))
    if ex.twin == 'one-sided':
        want = F(z1, bool(d1)) - F(z0, bool(d0))
        ex.assume(bool(d0) != bool(d1))
    ex.close(got, want, 'correction==sum-of-one-sided-differences', tol=1e-9)


def _spath(ex, z_from, z_to, beta, z_turn, direct, ice):
    import pyrex.ray_tracing as rt
    p = rt.SpecializedRayTracePath.__new__(rt.SpecializedRayTracePath)
    d = p.__dict__
    d['from_point'] = ex.array([0.0, 0.0, z_from])
    d['to_point'] = ex.array([100.0, 0.0, z_to])
    d['ice'] = ice
    d['dz'] = 1.0
    d['direct'] = direct
    d['theta0'] = 0.3
    d['_static_attrs'] = ['from_point', 'to_point', 'theta0', 'ice', 'dz', 'direct']
    d['_lazy_beta'] = beta
    d['_lazy_z_turn'] = z_turn
    return p


def h_path_integrals(ex):
    """path objects: direct = one corrected integral from source to receiver; indirect = the
    sum of the two legs source->turning depth and receiver->turning depth; path length and
    time of flight are their absolute values, hence equal when the endpoints are swapped."""
    from pyrex.ice_model import AntarcticIce
    ice = AntarcticIce()
    Fs = UFun(ex, 'Fs', lo=-1e4, hi=1e4, concrete=lambda z: 0.3 * z + math.sin(z / 100.0))
    Fd = UFun(ex, 'Fd', lo=-1e4, hi=1e4, concrete=lambda z: 0.7 * z + 5.0)

    def integrand(zz, beta, ice, deep=False):
        return Fd(zz) if deep else Fs(zz)
    direct = ex.case['direct']
    za = ex.real('za', -2000, -1)
    zb = ex.real('zb', -2000, -1)
    zt = ex.real('zt', -700, 0)
    beta = 1.2
    zu = float(ice.depth_with_index(ice.n0 * 0.99999))
    for v in (za, zb, zt):
        ex.assume(P.sb_or(v - zu >= 2e-3, zu - v >= 2e-3) if ex.sym else abs(v - zu) >= 1e-3)
    if not direct:
        ex.assume(zt > za)
        ex.assume(zt > zb)
    p = _spath(ex, za, zb, beta, zt, direct, ice)
    q = _spath(ex, zb, za, beta, zt, direct, ice)
    F = lambda zz: integrand(zz, beta, ice, deep=bool(zz < zu))

    def leg(u, v):
        du, dv = bool(u < zu), bool(v < zu)
        if du == dv:
            return F(v) - F(u)
        Fu = lambda zz, deep: Fd(zz) if deep else Fs(zz)
        return (Fu(zu, du) - Fu(u, du)) + (Fu(v, dv) - Fu(zu, dv))
    got = p.z_integral(integrand)
    want = leg(za, zb) if direct else leg(za, zt) + leg(zb, zt)
    if ex.twin == 'one-leg' and not direct:
        want = leg(za, zt) + 1.0
    ex.close(got, want, 'z_integral==%s' % ('one-leg' if direct else 'two-legs'), tol=1e-9)
    got_swapped = q.z_integral(integrand)
    if direct:
        ex.close(got_swapped, -got, 'swapped-direct-integral-is-the-negative', tol=1e-9)
    else:
        ex.close(got_swapped, got, 'swapped-indirect-integral-is-equal', tol=1e-9)


def h_reciprocal_lengths(ex):
    """path length and time of flight from the closed forms are the same for A->B and B->A
    (direct and indirect), and non-negative."""
    from pyrex.ice_model import AntarcticIce
    ice = AntarcticIce()
    direct = ex.case['direct']
    ra, rb = ex.case.get('ranges', ((-700, -10), (-700, -10)))
    za = ex.real('za', ra[0], ra[1])
    zb = ex.real('zb', rb[0], rb[1])
    beta = ex.case.get('beta', 1.2)
    zt = float(ice.depth_with_index(beta)) if beta > ice.index(0.0) - 0.43 else -1.0
    if not direct:
        ex.assume(za < zt - 1)
        ex.assume(zb < zt - 1)
    p = _spath(ex, za, zb, beta, zt, direct, ice)
    q = _spath(ex, zb, za, beta, zt, direct, ice)
    L1, L2 = p.path_length, q.path_length
    if ex.twin == 'longer':
        L2 = L2 + 1.0
    ex.close(L1, L2, 'path_length-equal-under-swap', tol=1e-9)
    ex.close(p.tof * C, q.tof * C, 'tof-equal-under-swap', tol=1e-6)
    ex.le(0.0, L1, 'path_length>=0', tol=0.0)
    ex.le(0.0, p.tof, 'tof>=0', tol=0.0)


def h_snell(ex):
    """a path with launch angle theta0: n(z) sin(theta(z)) = n(z0) sin(theta0) = beta at both
    ends; emitted and received directions are unit vectors in the vertical plane of the
    endpoints (azimuth of to - from); the received vertical component has the sign of
    cos(theta0) for a direct ray and is negative (downward) for an indirect one."""
    import pyrex.ray_tracing as rt
    from pyrex.ice_model import AntarcticIce
    ice = AntarcticIce()
    direct = ex.case['direct']
    z0 = ex.case.get('z0', -300.0)
    z1 = ex.case.get('z1', -120.0)
    t0 = ex.real('theta0', 0.05, math.pi - 0.05)
    # azimuth from a family of exact directions, horizontal distance symbolic
    ux, uy = ex.case.get('az', (3.0, 4.0))
    t = ex.real('t', 1.0, 200.0)
    dx, dy = ux * t, uy * t
    p = rt.BasicRayTracePath.__new__(rt.BasicRayTracePath)
    d = p.__dict__
    d['from_point'] = ex.array([10.0, -20.0, z0])
    d['to_point'] = ex.array([10.0 + dx, -20.0 + dy, z1])
    d['ice'] = ice
    d['dz'] = 1.0
    d['direct'] = direct
    d['theta0'] = t0
    d['_static_attrs'] = ['from_point', 'to_point', 'theta0', 'ice', 'dz', 'direct']
    n0 = float(ice.index(z0))
    n1 = float(ice.index(z1))
    s0 = np.sin(t0)
    beta = p.beta
    ex.close(beta, n0 * s0, 'beta==n(z0)sin(theta0)', tol=1e-12)
    # exactly horizontal launch (cos theta0 == 0) is a measure-zero corner where
    # sign(cos theta0) = 0; excluded
    c0_ = np.cos(t0)
    ex.assume(P.sb_or(c0_ >= 1e-6, c0_ <= -1e-6) if ex.sym else abs(c0_) >= 1e-6)
    # the ray reaches z1: beta <= n(z1)
    ex.assume(n0 * s0 <= n1 - 1e-3)
    em = p.emitted_direction
    rc = p.received_direction
    rho = np.sqrt(dx * dx + dy * dy)
    ex.close(em[0] * em[0] + em[1] * em[1] + em[2] * em[2], 1.0, 'emitted-unit', tol=1e-9)
    ex.close(rc[0] * rc[0] + rc[1] * rc[1] + rc[2] * rc[2], 1.0, 'received-unit', tol=1e-9)
    ex.close(n0 * n0 * (em[0] * em[0] + em[1] * em[1]), beta * beta, 'snell-at-launch', tol=1e-9)
    ex.close(n1 * n1 * (rc[0] * rc[0] + rc[1] * rc[1]), beta * beta if ex.twin != 'n0'
             else n0 * n0 * s0 * s0 * 1.1, 'snell-at-reception', tol=1e-9)
    # azimuth: horizontal parts parallel to (dx, dy) and pointing the same way
    ex.close(em[0] * dy - em[1] * dx, 0.0, 'emitted-in-plane-of-endpoints', tol=1e-6)
    ex.close(rc[0] * dy - rc[1] * dx, 0.0, 'received-in-plane-of-endpoints', tol=1e-6)
    ex.le(0.0, em[0] * dx + em[1] * dy, 'emitted-points-towards-receiver', tol=1e-9)
    ex.le(0.0, rc[0] * dx + rc[1] * dy, 'received-points-away-from-source', tol=1e-9)
    ex.close(em[2], np.cos(t0), 'emitted-z==cos(theta0)', tol=1e-12)
    if direct:
        c0 = np.cos(t0)
        with ex.under(c0 > 1e-6) as f:
            if f:
                ex.lt(0.0, rc[2], 'direct-up-stays-up')
        with ex.under(c0 < -1e-6) as f:
            if f:
                ex.lt(rc[2], 0.0, 'direct-down-stays-down')
    else:
        ex.le(rc[2], 0.0, 'indirect-arrives-downward', tol=1e-9)


def h_numeric_r(ex):
    """the numeric tracer's radial distance of the direct ray: the trapezoid sum of
    tan(theta(z)) over the depth nodes with the TRUE node spacing, for every launch angle."""
    import pyrex.ray_tracing as rt
    from pyrex.ice_model import AntarcticIce
    ice = AntarcticIce()
    z0, z1, dz = ex.case['z0'], ex.case['z1'], ex.case['dz']
    tr = rt.BasicRayTracer(ex.const_array([0.0, 0.0, z0]), ex.const_array([50.0, 0.0, z1]),
                           ice_model=ice, dz=dz)
    lo, hi = min(z0, z1), max(z0, z1)
    n_lo, n_hi = float(ice.index(lo)), float(ice.index(hi))
    A = ex.real('A', 0.01, math.asin(n_hi / n_lo) - 0.01)
    got = tr._direct_r(A)
    n = int(abs((hi - lo) / dz))
    zs = [lo + (hi - lo) * i / n for i in range(n + 1)]
    step = (hi - lo) / n
    if ex.twin == 'nominal-step':
        step = dz
    sA = np.sin(A)
    vals = []
    for zz in zs:
        u = sA * n_lo / float(ice.index(zz))
        vals.append(u / np.sqrt(1 - u * u))
    want = sum((vals[i] + vals[i + 1]) / 2 * step for i in range(n))
    ex.close(got, want, 'direct_r==trapezoid(tan theta, true step)', tol=1e-9)
    ex.close(tr._direct_r(A, brent_arg=12.5), want - 12.5, 'residual==r-target', tol=1e-9)


def h_launch_angle(ex):
    """with the root finder replaced by 'some angle A inside the bracket it is given': the
    bracket of the direct search is [0, max_angle]; the launch angle returned satisfies
    n(z_from) sin(theta0) = n(z_low) sin A; it is flipped (pi - .) exactly when the source is
    the upper point; the first solution is flagged direct, and beta <= n(z_high), so it has
    no turning depth between its endpoints."""
    import pyrex.ray_tracing as rt
    from pyrex.ice_model import AntarcticIce, GreenlandIce
    kind = ex.case.get('ice', 'antarctic')
    # (a non-default profile: the module-level default ice must play no role)
    ice = {'antarctic': AntarcticIce, 'greenland': GreenlandIce,
           'custom': lambda: AntarcticIce(n0=1.62, k=0.31, a=0.021)}[kind]()
    zf, zt = ex.case['z_from'], ex.case['z_to']
    brackets = []

    class T(rt.BasicRayTracer):
        @staticmethod
        def angle_search(true_r, r_function, min_angle, max_angle, tolerance=1e-12,
                         max_iterations=100):
            brackets.append((true_r, min_angle, max_angle))
            u = ex.real('root%d' % len(brackets), 0.0, 1.0)
            return min_angle + u * (max_angle - min_angle)
    dx = ex.real('dx', 1, 400)
    tr = T(ex.array([0.0, 0.0, zf]), ex.array([dx, 0.0, zt]), ice_model=ice, dz=1.0)
    tr.__dict__['_lazy_expected_solutions'] = [True, False, False]
    lo, hi = min(zf, zt), max(zf, zt)
    n_lo, n_hi, n_from = float(ice.index(lo)), float(ice.index(hi)), float(ice.index(zf))
    if ex.sym:
        P.note_trig_point(math.asin(n_hi / n_lo))
        P.note_trig_point(0.0)
    ang = tr.direct_angle
    true_r, a_min, a_max = brackets[0]
    ex.close(true_r, dx, 'target-is-the-horizontal-distance', tol=1e-9)
    ex.close(a_min, 0.0, 'bracket-lower==0', tol=0.0)
    ex.close(a_max, math.asin(n_hi / n_lo), 'bracket-upper==max_angle', tol=1e-12)
    A = a_min + ex.real('root1', 0.0, 1.0) * (a_max - a_min)
    s = np.sin(ang)
    ex.close(n_from * s, n_lo * np.sin(A), 'snell:n(z_from)sin(theta0)==n(z_low)sin(A)', tol=1e-9)
    c = np.cos(ang)
    if zf > zt:
        if ex.twin == 'no-flip':
            ex.le(0.0, c, 'launched-downward-from-the-upper-point', tol=1e-12)
        else:
            ex.le(c, 0.0, 'launched-downward-from-the-upper-point', tol=1e-12)
    else:
        ex.le(0.0, c, 'launched-upward-from-the-lower-point', tol=1e-12)
    ex.le(n_lo * np.sin(A), n_hi, 'beta<=n(z_high):no-turning-depth-between-endpoints', tol=1e-9)
    sols = tr.solutions
    ex.same(len(sols), 1, 'one-solution-built')
    ex.same(sols[0].direct, True, 'first-solution-is-direct')
    ex.close(sols[0].theta0, ang, 'path-gets-the-launch-angle', tol=0.0)


HARNESSES = [
    Harness('antiderivative', h_antiderivative, _mods, encodes=_enc, twins=('double',),
            cases={'quick': [{'which': w, 'deep': d} for w in ('distance', 'pathlen', 'tof')
                             for d in (False, True)],
                   'thorough': [{'which': w, 'deep': d} for w in ('distance', 'pathlen', 'tof')
                                for d in (False, True)]},
            budget={'quick': {'query_timeout_ms': 120000, 'wall_s': 400, 'oneshot': True,
                              'resolve_ite': True, 'merge_exp': False},
                    'thorough': {'query_timeout_ms': 600000, 'wall_s': 1500, 'oneshot': True,
                                 'resolve_ite': True, 'merge_exp': False}}),
    Harness('uniform-correction', h_uniform_correction, _mods, encodes=_enc, twins=('one-sided',)),
    Harness('path-integrals', h_path_integrals, _mods, encodes=_enc, twins=('one-leg',),
            cases={'quick': [{'direct': False, '_twins': 1}, {'direct': True}],
                   'thorough': [{'direct': False, '_twins': 1}, {'direct': True}]},
            budget={'quick': {'max_paths': 2000}}),
    Harness('reciprocal-lengths', h_reciprocal_lengths, _mods, encodes=_enc, twins=('longer',),
            cases={'quick': [{'direct': True}, {'direct': False, 'beta': 1.5},
                             {'direct': True, 'ranges': ((-1500, -800), (-700, -10))}],
                   'thorough': [{'direct': True}, {'direct': False, 'beta': 1.5},
                                {'direct': True, 'ranges': ((-1500, -800), (-700, -10))},
                                {'direct': True, 'ranges': ((-2500, -800), (-2000, -900))},
                                {'direct': True, 'beta': 0.7}, {'direct': False, 'beta': 1.6}]},
            budget={'quick': {'query_timeout_ms': 60000, 'wall_s': 300}}),
    Harness('snell', h_snell, _mods, encodes=_enc, twins=('n0',),
            cases={'quick': [{'direct': True}, {'direct': False, 'az': (-5.0, 12.0)},
                             {'direct': True, 'z0': -100.0, 'z1': -900.0, 'az': (0.0, -1.0)}],
                   'thorough': [{'direct': d, 'z0': a, 'z1': b} for d in (True, False)
                                for (a, b) in ((-300.0, -120.0), (-100.0, -900.0), (-50.0, -51.0),
                                               (-1500.0, -20.0))]},
            budget={'quick': {'query_timeout_ms': 60000, 'wall_s': 300}}),
    Harness('numeric-r', h_numeric_r, _mods, encodes=_enc, twins=('nominal-step',),
            cases={'quick': [{'z0': -103.25, 'z1': -100.0, 'dz': 1.0},
                             {'z0': -100.0, 'z1': -102.1, 'dz': 0.7}],
                   'thorough': [{'z0': -103.25, 'z1': -100.0, 'dz': 1.0},
                                {'z0': -100.0, 'z1': -102.1, 'dz': 0.7},
                                {'z0': -180.25, 'z1': -173.0, 'dz': 1.0},
                                {'z0': -20.0, 'z1': -26.5, 'dz': 3.0}]}),
    Harness('launch-angle', h_launch_angle, _mods, encodes=_enc, twins=('no-flip',),
            cases={'quick': [{'z_from': -100.0, 'z_to': -400.0, '_twins': 1},
                             {'z_from': -400.0, 'z_to': -100.0},
                             {'z_from': -100.0, 'z_to': -300.0, 'ice': 'greenland'},
                             {'z_from': -60.0, 'z_to': -250.0, 'ice': 'custom'},
                             {'z_from': -300.0, 'z_to': -100.0, 'ice': 'greenland'}],
                   'thorough': [{'z_from': -100.0, 'z_to': -400.0, '_twins': 1},
                                {'z_from': -400.0, 'z_to': -100.0},
                                {'z_from': -100.0, 'z_to': -300.0, 'ice': 'greenland'},
                                {'z_from': -300.0, 'z_to': -100.0, 'ice': 'greenland'},
                                {'z_from': -60.0, 'z_to': -250.0, 'ice': 'custom'},
                                {'z_from': -250.0, 'z_to': -60.0, 'ice': 'custom'},
                                {'z_from': -1500.0, 'z_to': -200.0},
                                {'z_from': -30.0, 'z_to': -35.0}]}),
]

BOUNDS = {
    'quick': {'closed forms': 'all n0 in [1.2,2.5], k in [0.05,1], a in [0.001,0.1], k<n0-1, '
              'z in [-3000,0], beta in [0.01, n(z)-0.001]: no bound on the values',
              'uniform correction': 'arbitrary (uninterpreted) antiderivative pair, all '
              'orderings of z0, z1, z_uniform', 'snell': 'any launch angle and horizontal offset; '
              'depth pairs from a list', 'numeric tracer': 'depth grids of 2-3 steps whose true '
              'spacing differs from dz, any launch angle'},
    'thorough': {},
}
OUTSIDE = ["convergence of brentq and the peak-angle search (C code, iterative): the root "
           "finder is replaced by 'some angle in the bracket it is given'; that the angle found "
           "is a root is brentq's documented contract",
           "the |beta| <= beta_tolerance branch (vertical rays) and the link_range blending in "
           "the indirect distance", "numeric quadrature error of the basic tracer",
           "float rounding near z_uniform and the shadow boundary"]
ASSUMPTIONS = ["exp/log/sqrt atoms with their axioms; arcsin as a point on the unit circle",
               "scipy.optimize.brentq returns a root of the function it is given inside the "
               "bracket (not encoded)"]
