"""C09 - antenna and antenna-system hit bookkeeping is consistent under every history.

Encoded: Antenna.receive/waveforms/all_waveforms/is_hit/is_hit_during/full_waveform/
make_noise/clear/trigger; DipoleAntenna.trigger (pyrex/antenna.py); AntennaSystem.signals/
waveforms/all_waveforms/full_waveform/make_noise/clear/_calculate_lead_in_times/is_hit/
is_hit_during (pyrex/detector.py); Signal.with_times/__add__ (pyrex/signals.py).
"""
import itertools
import numpy as np

from symx.explore import Harness
from symx import poly as P
from harness.common import UFun


def _mods():
    import pyrex.antenna
    import pyrex.detector
    import pyrex.signals
    import pyrex.internal_functions
    return [pyrex.antenna, pyrex.detector, pyrex.signals, pyrex.internal_functions]


def _enc():
    from pyrex.antenna import Antenna as A, DipoleAntenna as D
    from pyrex.detector import AntennaSystem as S
    return [A.receive, A.waveforms.fget, A.all_waveforms.fget, A.is_hit.fget, A.is_hit_during,
            A.full_waveform, A.make_noise, A.clear, D.trigger, S.signals.fget, S.waveforms.fget,
            S.all_waveforms.fget, S.full_waveform, S.make_noise, S.clear,
            S._calculate_lead_in_times, S.is_hit.fget, S.is_hit_during]


# received signals: name -> (first time, number of samples); dt = 1
GRIDS = {'A': (0.0, 3), 'B': (1.0, 3), 'C': (6.0, 3), 'D': (-1.0, 6), 'H': (1.5, 2),
         'E': (2.0, 3), 'F': (-2.0, 3)}     # E, F abut A in exactly one sample
WINDOWS = {'w1': (0.0, 4), 'w2': (2.0, 3), 'w3': (20.0, 2), 'w4': (0.5, 3)}


class StubNoise:
    """A noise realisation: a function of absolute time (uninterpreted)."""

    def __init__(self, ex, idx):
        self.ex = ex
        self.g = UFun(ex, 'noise%d' % idx, lo=-1.0, hi=1.0,
                      concrete=(lambda t, k=idx: 0.3 * np.sin(1.7 * t + k) + 0.1 * np.cos(0.3 * t)))

    def with_times(self, times):
        from pyrex.signals import Signal
        return Signal(times, self.g(np.asarray(times, dtype=object if self.ex.sym else float)),
                      value_type=Signal.Type.voltage)


class World:
    def __init__(self, ex, kind, noisy, thr):
        import pyrex.antenna as pa
        from pyrex.detector import AntennaSystem
        self.ex = ex
        self.noisy = noisy
        self.noise_count = 0
        self.kind = kind
        world = self

        class Ant(pa.Antenna):
            def trigger(self, signal):
                # a simple trigger predicate (one fork): second sample above threshold; the
                # shipped DipoleAntenna.trigger is decided in its own harness below
                return signal.values[1] > thr

            def make_noise(self, times):
                if self._noise_master is None:
                    world.noise_count += 1
                    self._noise_master = StubNoise(ex, world.noise_count)
                return self._noise_master.with_times(times)
        self.ant = Ant(position=(0.0, 0.0, -100.0), noisy=noisy)
        self.gain = 1.0
        if kind == 'system':
            g = ex.real('gain', 0.5, 2.0)
            self.gain = g
            lead = ex.case.get('lead', 0.0)

            class Sys(AntennaSystem):
                lead_in_time = lead

                def front_end(self, signal):
                    return signal * g
            self.obj = Sys(self.ant)
        else:
            self.obj = self.ant
        self.thr = thr
        self.received = []     # (times list, values list)
        self.nrecv = 0

    def noise_at(self, t):
        if not self.noisy:
            return 0.0
        if self.ant._noise_master is None:
            # the next query creates realisation number noise_count+1
            return StubNoise(self.ex, self.noise_count + 1).g(t)
        return self.ant._noise_master.g(t)


def interp0(ex, ts, vs, t):
    """value at time t of the piecewise-linear signal (ts, vs), zero outside its span"""
    val = 0.0
    for i in range(len(ts) - 1):
        lin = vs[i] + (vs[i + 1] - vs[i]) * (t - ts[i]) / (ts[i + 1] - ts[i])
        if ts[i] <= t <= ts[i + 1]:
            val = lin
    return val


def expected(W, times):
    """sum of all received signals interpolated onto `times` (+ noise at absolute times),
    through the front end for a system."""
    out = []
    for t in times:
        v = W.noise_at(t)
        for (ts, vs) in W.received:
            v = v + interp0(W.ex, ts, vs, t)
        out.append(v * W.gain)
    return out


def grid(name, table):
    t0, n = table[name]
    return [t0 + i for i in range(n)]


def check_waveform(ex, W, wave, times, label):
    ex.close(wave.times, times, label + '-on-its-own-grid', tol=0.0)
    want = expected(W, times)
    if ex.twin == 'first-only' and len(W.received) > 1:
        save = W.received
        W.received = save[:1]
        want = expected(W, times)
        W.received = save
    ex.close(wave.values, want, label + '-is-sum-of-received(+noise)', tol=1e-9)


def trig_expected(ex, W, times):
    vals = expected(W, times)
    m = vals[1]
    # ties with the threshold are excluded (measure zero; one ulp decides them in float)
    ex.assume(P.sb_or(m - W.thr >= 1e-6, W.thr - m >= 1e-6) if ex.sym else abs(m - W.thr) >= 1e-6)
    return m > W.thr


def observe_all(ex, W, tag):
    obj = W.obj
    allw = obj.all_waveforms
    ex.same(len(allw), len(W.received), tag + ':one-waveform-per-received-signal')
    flags = []
    for j, (ts, vs) in enumerate(W.received):
        if j < len(allw):
            check_waveform(ex, W, allw[j], ts, tag + ':waveform')
        flags.append(trig_expected(ex, W, ts))
    return allw, flags


def observe_triggered(ex, W, tag, first=None):
    obj = W.obj
    # `first`: the query made BEFORE all_waveforms is looked at (the catch-up loops of
    # waveforms / is_hit must not rely on an earlier all_waveforms call)
    if first == 'waveforms':
        trig = obj.waveforms
    elif first == 'is_hit':
        hit_first = bool(obj.is_hit)
    allw, flags = observe_all(ex, W, tag)
    if first != 'waveforms':
        trig = obj.waveforms
    if first == 'is_hit':
        ex.same(hit_first, len(trig) > 0, tag + ':is_hit(asked-first)==some-triggered')
    # path-wise: the set of triggered waveforms is concrete, the oracle flags may be symbolic
    ids = [id(w) for w in trig]
    k = 0
    for j, w in enumerate(allw):
        sel = (k < len(trig) and trig[k] is w)
        if sel:
            k += 1
        if j < len(flags):
            f = flags[j]
            ex.true(f if sel else (P.sb_not(f) if ex.sym else not f),
                    tag + ':triggered-iff-trigger-holds')
    ex.same(k, len(trig), tag + ':triggered-waveforms-in-reception-order')
    ex.same(bool(obj.is_hit), len(trig) > 0, tag + ':is_hit==some-triggered')


def h_history(ex):
    """after any sequence of receive / query / clear operations the observable state equals
    the reference: one waveform per received signal on its own grid = sum of all received
    signals (+ the same noise realisation at the same absolute times until reset); triggered
    waveforms are exactly those satisfying the trigger, in order; clear empties."""
    from pyrex.signals import Signal
    kind = ex.case['kind']
    noisy = ex.case['noisy']
    seq = ex.case['seq']
    thr = ex.real('thr', 0.0, 3.0)
    W = World(ex, kind, noisy, thr)
    obj = W.obj
    for step, op in enumerate(seq):
        tag = 'step%d:%s' % (step, op)
        if op.startswith('R'):
            name = op[1:]
            ts = grid(name, GRIDS)
            vs = ex.reals('s%d_' % step, len(ts), -2, 2)
            sig = Signal(ex.array(ts), ex.array(vs), value_type='voltage')
            obj.receive(sig)
            W.received.append((ts, list(vs)))
        elif op == 'Qall':
            observe_all(ex, W, tag)
        elif op == 'Qw':
            observe_triggered(ex, W, tag)
        elif op == 'Qwf':
            observe_triggered(ex, W, tag, first='waveforms')
        elif op == 'Qhf':
            observe_triggered(ex, W, tag, first='is_hit')
        elif op.startswith('Qfull'):
            times = grid(op[5:], WINDOWS)
            wave = obj.full_waveform(ex.const_array(times))
            check_waveform(ex, W, wave, times, tag + ':full_waveform')
        elif op.startswith('Qdur'):
            times = grid(op[4:], WINDOWS)
            r = obj.is_hit_during(ex.const_array(times))
            f = trig_expected(ex, W, times)
            ex.true(P.mk_bool(P.b_z3(r) == P.b_z3(f)) if ex.sym else bool(r) == bool(f),
                    tag + ':is_hit_during==trigger(full_waveform)')
        elif op == 'C':
            obj.clear(reset_noise=False)
            W.received = []
        elif op == 'CN':
            obj.clear(reset_noise=True)
            W.received = []
        if op in ('C', 'CN'):
            ex.same(len(obj.all_waveforms), 0, tag + ':empty-after-clear')
            ex.same(len(obj.waveforms), 0, tag + ':no-triggered-after-clear')
            ex.same(bool(obj.is_hit), False, tag + ':not-hit-after-clear')
            ex.same(len(W.ant.signals), 0, tag + ':no-signals-after-clear')
    observe_triggered(ex, W, 'final')
    times = grid('w1', WINDOWS)
    wave = obj.full_waveform(ex.const_array(times))
    check_waveform(ex, W, wave, times, 'final:full_waveform')
    if noisy:
        ex.same(W.noise_count >= 1, True, 'noise-created')


def h_dipole_trigger(ex):
    """DipoleAntenna.trigger(signal) <=> max |value| > threshold."""
    import pyrex.antenna as pa
    from pyrex.signals import Signal
    n = ex.case['n']
    vs = ex.reals('v', n, -2, 2)
    thr = ex.real('thr', 0, 3)
    ant = pa.DipoleAntenna.__new__(pa.DipoleAntenna)
    ant.threshold = thr
    r = ant.trigger(Signal(ex.array([float(i) for i in range(n)]), ex.array(vs)))
    some = P.sb_or(*[P.sb_or(v > thr, -v > thr) for v in vs]) if ex.sym else \
        any(abs(v) > thr for v in vs)
    if ex.twin == 'signed':
        some = P.sb_or(*[v > thr for v in vs]) if ex.sym else any(v > thr for v in vs)
    for v in vs:
        ex.assume(P.sb_and(P.sb_or(v - thr >= 1e-6, thr - v >= 1e-6),
                           P.sb_or(-v - thr >= 1e-6, thr + v >= 1e-6)) if ex.sym else
                  (abs(abs(v) - thr) >= 1e-6))
    ex.true(P.mk_bool(P.b_z3(r) == P.b_z3(some)) if ex.sym else bool(r) == bool(some),
            'dipole-trigger<=>max|v|>threshold')


def h_lead_in(ex):
    """_calculate_lead_in_times: constant step, ends with the given times, starts at or
    before t0 - lead_in_time."""
    from pyrex.detector import AntennaSystem
    from pyrex.antenna import Antenna
    n = ex.case['n']
    dt = ex.case['dt']
    lead = ex.real('lead', 0.0, 6.0 * dt)
    t0 = ex.real('t0', -100, 100)

    class Sys(AntennaSystem):
        pass
    s = Sys(Antenna(position=(0.0, 0.0, -1.0), noisy=False))
    s.lead_in_time = lead
    times = [t0 + i * dt for i in range(n)]
    long_times = s._calculate_lead_in_times(ex.array(times))
    m = len(long_times)
    ex.same(m >= n, True, 'not-shorter')
    ex.close(list(long_times[m - n:]), times, 'ends-with-the-given-times', tol=0.0)
    for i in range(m - 1):
        ex.close(long_times[i + 1] - long_times[i], dt, 'constant-step', tol=1e-9)
    if ex.twin == 'late':
        ex.le(long_times[0], t0 - lead - dt, 'starts-at-or-before-t0-lead', tol=1e-9)
    else:
        ex.le(long_times[0], t0 - lead, 'starts-at-or-before-t0-lead', tol=1e-9)
    ex.le(t0 - lead - 2 * dt, long_times[0], 'not-more-than-two-steps-early', tol=1e-9)


R_OPS = ['RA', 'RB', 'RC']
Q_OPS = ['Qall', 'Qw', 'Qfullw1', 'Qdurw2']
C_OPS = ['C', 'CN']


def _seqs(ops, k):
    return [list(s) for s in itertools.product(ops, repeat=k)]


def _useful(seq):
    return any(o.startswith('R') for o in seq)


def _cases(tier):
    out = [{'kind': 'antenna', 'noisy': False, 'seq': ['RA', 'RB'], '_twins': 1}]
    ops = R_OPS[:2] + Q_OPS[:3] + C_OPS[:1]
    if tier == 'quick':
        base = [s for s in _seqs(ops, 2) if _useful(s)] + \
            [s for s in _seqs(['RA', 'RB', 'Qall', 'Qw', 'C'], 3)
             if _useful(s) and s[0].startswith('R')]
        for s in base:
            out.append({'kind': 'antenna', 'noisy': False, 'seq': s})
        pick = [['RA', 'Qall', 'RB'], ['RA', 'Qw', 'RB'], ['RA', 'RB', 'C'], ['RA', 'CN', 'RB'],
                ['RD', 'Qw', 'RA'], ['RA', 'Qfullw4', 'RH'], ['RC', 'Qdurw2', 'RA'],
                ['RA', 'Qw', 'C', 'RB'], ['RA', 'RB', 'Qw', 'CN'], ['RB', 'Qall', 'RA', 'Qw'],
                ['RA', 'Qwf', 'RB', 'Qwf'], ['RA', 'Qhf', 'RD', 'Qhf'], ['RB', 'Qwf', 'C', 'RA', 'Qwf'],
                ['RA', 'RE'], ['RE', 'RA', 'Qw'], ['RA', 'RF', 'Qall'], ['RF', 'RE', 'RA']]
        for s in pick[-4:]:
            out.append({'kind': 'antenna', 'noisy': False, 'seq': s})
        for s in pick:
            out.append({'kind': 'antenna', 'noisy': True, 'seq': s})
            out.append({'kind': 'system', 'noisy': False, 'seq': s, 'lead': 0.0})
            out.append({'kind': 'system', 'noisy': True, 'seq': s, 'lead': 2.0})
    else:
        allops = R_OPS + ['RD', 'RH', 'RE', 'RF'] + Q_OPS + ['Qfullw3', 'Qfullw4'] + C_OPS
        for s in _seqs(R_OPS + Q_OPS + C_OPS, 3):
            if _useful(s):
                for kind, noisy, lead in (('antenna', False, 0.0), ('antenna', True, 0.0),
                                          ('system', False, 0.0), ('system', True, 2.0)):
                    out.append({'kind': kind, 'noisy': noisy, 'seq': s, 'lead': lead})
        for s in _seqs(['RA', 'RB', 'Qwf', 'Qhf', 'C'], 4):
            if _useful(s) and ('Qwf' in s or 'Qhf' in s) and s[0].startswith('R'):
                out.append({'kind': 'antenna', 'noisy': False, 'seq': s})
                out.append({'kind': 'system', 'noisy': False, 'seq': s, 'lead': 0.0})
        for s in _seqs(['RA', 'RB', 'Qall', 'Qw', 'C', 'CN'], 4):
            if _useful(s):
                out.append({'kind': 'antenna', 'noisy': False, 'seq': s})
                out.append({'kind': 'system', 'noisy': True, 'seq': s, 'lead': 1.5})
    return out


HARNESSES = [
    Harness('history', h_history, _mods, encodes=_enc, twins=('first-only',),
            cases={'quick': _cases('quick'), 'thorough': _cases('thorough')},
            budget={'quick': {'max_paths': 3000, 'wall_s': 240},
                    'thorough': {'max_paths': 10000, 'wall_s': 600}}),
    Harness('dipole-trigger', h_dipole_trigger, _mods, encodes=_enc, twins=('signed',),
            cases={'quick': [{'n': 2}, {'n': 3}], 'thorough': [{'n': n} for n in (1, 2, 3, 4)]}),
    Harness('lead-in-grid', h_lead_in, _mods, encodes=_enc, twins=('late',),
            cases={'quick': [{'n': 3, 'dt': 1.0}, {'n': 2, 'dt': 0.5}],
                   'thorough': [{'n': n, 'dt': dt} for n in (2, 3, 5) for dt in (1.0, 0.5, 1e-9)]}),
]

BOUNDS = {
    'quick': {'histories': 'all sequences of length 3 over {receive A, receive B, all_waveforms, '
              'waveforms, full_waveform, clear} on a noiseless antenna; 10 hand-picked histories '
              '(overlapping, nested, abutting, disjoint windows; clears with and without noise '
              'reset) on a noisy antenna and on antenna systems with lead-in 0 and 2',
              'signals': '3-sample grids (2..6) with symbolic values', 'threshold / front-end '
              'gain': 'symbolic', 'noise': 'an uninterpreted function of absolute time per '
              'realisation'},
    'thorough': {'histories': 'all length-3 sequences over 9 operations x 4 object kinds; all '
                 'length-4 sequences over 6 operations'},
}
OUTSIDE = ["the statistical content of the thermal noise (C17); here a realisation is any "
           "function of absolute time", "is_hit_mc_truth"]
ASSUMPTIONS = ["ThermalNoise.with_times evaluates a fixed function of absolute time (decided "
               "in C17)"]
