"""C15 - Earth density and slant depth equal the reference profile and its line integral.

Encoded: PREM.density, PREM.slant_depth, CoreMantleCrustModel (class attributes)
(pyrex/earth_model.py); normalize (pyrex/internal_functions.py).
"""
import math
import numpy as np

from symx.explore import Harness
from symx import poly as P


def _mods():
    import pyrex.earth_model
    import pyrex.internal_functions
    return [pyrex.earth_model, pyrex.internal_functions]


def _enc():
    from pyrex.earth_model import PREM
    from pyrex.internal_functions import normalize
    return [PREM.density, PREM.slant_depth, normalize]


# independent transcription of the two reference models (Dziewonski & Anderson 1981 PREM;
# the three-shell core/mantle/crust model)
R_PREM = 6371.0e3
PREM_TABLE = [
    (0.0, 1221.5e3, lambda x: 13.0885 - 8.8381 * x * x),
    (1221.5e3, 3480.0e3, lambda x: 12.5815 - 1.2638 * x - 3.6426 * x * x - 5.5281 * x * x * x),
    (3480.0e3, 5701.0e3, lambda x: 7.9565 - 6.4761 * x + 5.5283 * x * x - 3.0807 * x * x * x),
    (5701.0e3, 5771.0e3, lambda x: 5.3197 - 1.4836 * x),
    (5771.0e3, 5971.0e3, lambda x: 11.2494 - 8.0298 * x),
    (5971.0e3, 6151.0e3, lambda x: 7.1089 - 3.8045 * x),
    (6151.0e3, 6346.6e3, lambda x: 2.6910 + 0.6924 * x),
    (6346.6e3, 6356.0e3, lambda x: 2.9),
    (6356.0e3, 6368.0e3, lambda x: 2.6),
    (6368.0e3, 6371.0e3, lambda x: 1.02),
]
R_CMC = 6378.14e3
CMC_TABLE = [
    (0.0, math.sqrt(1.2e13), lambda x: 14.0),
    (math.sqrt(1.2e13), R_CMC - 40000.0, lambda x: 3.4),
    (R_CMC - 40000.0, R_CMC, lambda x: 2.9),
]
RHO_MAX = {'prem': 13.0885, 'cmc': 14.0}


def model(which):
    import pyrex.earth_model as em
    if which == 'prem':
        return em.PREM(), R_PREM, PREM_TABLE
    return em.CoreMantleCrustModel(), R_CMC, CMC_TABLE


def ref_density(ex, r, R, table):
    val = 0.0
    for (lo, hi, f) in reversed(table):
        inside = P.sb_and(P.cmp(r, lo, '>='), P.cmp(r, hi, '<')) if ex.sym else (lo <= r < hi)
        v = f(r / R)
        val = P.ite(inside, v, val) if ex.sym else (v if inside else val)
    return val


def h_density(ex):
    """density(r) is the reference shell value at every radius, 0 outside, scalar==array."""
    mdl, R, table = model(ex.case['model'])
    r = ex.real('r', 0, 7.0e6)
    got = mdl.density(r)
    want = ref_density(ex, r, R, table)
    if ex.twin == 'shifted':
        want = ref_density(ex, r + 5000.0, R, table)
    ex.close(got, want, 'density==reference-table', tol=1e-12)
    r2 = ex.real('r2', 0, 7.0e6)
    arr = mdl.density(ex.array([r, r2, R, 0.0]))
    ex.close(arr[0], got, 'scalar==array', tol=0.0)
    ex.close(arr[1], ref_density(ex, r2, R, table), 'array-second-entry', tol=1e-12)
    ex.close(arr[2], 0.0, 'zero-at-the-surface-radius', tol=0.0)
    ex.close(arr[3], table[0][2](0.0), 'centre-value', tol=1e-12)
    # radii given as integers (metres): a Python int, a list of ints, an integer ndarray
    ri = ex.integer('ri', 0, 7000000)
    wi = ref_density(ex, ri, R, table)
    ex.close(mdl.density(ri), wi, 'integer-radius==reference-table', tol=1e-12)
    li = mdl.density([ri, ri])
    ex.close(li[1], wi, 'integer-list==reference-table', tol=1e-12)
    ai = mdl.density(np.array([ri, ri]) if not ex.sym else ex.array([ri, ri]))
    ex.close(ai[0], wi, 'integer-array==reference-table', tol=1e-12)
    # non-negative everywhere
    ex.le(0.0, got, 'density-nonnegative', tol=0.0)
    ex.le(got, RHO_MAX[ex.case['model']], 'density<=central-density', tol=1e-12)


DIRS = {'down': (0.0, 0.0, -1.0), 'up': (0.0, 0.0, 2.0), 'tangent-x': (1.0, 0.0, 0.0),
        'tangent-xy': (3.0, 4.0, 0.0), 'steep': (2.0, -1.0, -2.0), 'shallow': (6.0, 2.0, -3.0),
        'grazing': (12.0, 0.0, -0.125), 'up-slant': (-3.0, 0.0, 4.0)}


def _geometry(ex, R):
    """Endpoint symbolic (any x,y within 10 km, depth 0..3 km); direction from a concrete
    family (vertical, tangential, steep, shallow, grazing, upward; non-unit lengths) or,
    for case 'dir' == 'sym-plane', a symbolic unit vector in the x-z plane."""
    x = ex.real('x', -1e4, 1e4)
    y = ex.real('y', -1e4, 1e4)
    z = ex.real('z', -3000, 0)
    dn = ex.case.get('dir', 'steep')
    if dn == 'sym-plane':
        ux = ex.real('ux', -1, 1)
        uz = ex.real('uz', -1, 1)
        ex.assume_eq(ux * ux + uz * uz, 1.0)
        return (x, y, z), [ux, 0.0, uz]
    return (x, y, z), list(DIRS[dn])


def ref_chord(ex, e, d, R):
    """harness-side geometry: unit direction, b = e.d, disc, distance."""
    n = np.sqrt(d[0] * d[0] + d[1] * d[1] + d[2] * d[2])
    u = [c / n for c in d]
    E = [e[0], e[1], e[2] + R]
    b = E[0] * u[0] + E[1] * u[1] + E[2] * u[2]
    e2 = E[0] * E[0] + E[1] * E[1] + E[2] * E[2]
    disc = b * b - e2 + R * R
    return u, E, b, e2, disc


def h_slant(ex):
    """slant depth: zero exactly when the chord does not enter the Earth; otherwise
    100*distance*trapezoid of the reference density at equally spaced points from the
    endpoint to the point where the line leaves the sphere."""
    mdl, R, table = model(ex.case['model'])
    m = ex.case['m']
    e, d = _geometry(ex, R)
    step = ex.real('step', 50.0, 1.0e7)
    u, E, b, e2, disc = ref_chord(ex, e, d, R)
    region = ex.choice(3)
    if region == 0:
        ex.assume(disc <= 0)
        got = mdl.slant_depth(e, d, step=step)
        ex.close(got, 0.0, 'zero-when-line-misses-sphere', tol=0.0)
        return
    ex.assume(disc > 0)
    dist = -b + np.sqrt(disc)
    if region == 1:
        ex.assume(dist <= 0)
        got = mdl.slant_depth(e, d, step=step)
        ex.close(got, 0.0, 'zero-when-pointing-away', tol=0.0)
        return
    ex.assume(dist > 0)
    # node count m: (m-1) < distance/step <= m, stated before the code runs
    q = dist / step
    # interior of the node-count cell (the boundary distance/step == m exactly is a
    # measure-zero set on which one ulp decides the count)
    ex.assume(q > m - 1 + 1e-6)
    ex.assume(q <= m - 1e-6)
    got = mdl.slant_depth(e, d, step=step)
    if m == 1:
        ex.close(got, 0.0, 'single-node-gives-zero', tol=0.0)
        return
    ts = [i / (m - 1) for i in range(m)]
    pts = [[E[k] + t * dist * u[k] for k in range(3)] for t in ts]
    rs = [np.sqrt(p[0] * p[0] + p[1] * p[1] + p[2] * p[2]) for p in pts]
    # case split (structural fork): which shell each sample lies in; inside a case both
    # the code's np.piecewise and the reference table reduce to one polynomial per sample
    if ex.case.get('split'):
        for i, r in enumerate(rs):
            k = ex.choice(len(table) + 1)
            if k == len(table):
                ex.assume(r >= R)
            else:
                ex.assume(r >= table[k][0])
                ex.assume(r < table[k][1])
    rho = [ref_density(ex, r, R, table) for r in rs]
    w = [0.5 if i in (0, m - 1) else 1.0 for i in range(m)]
    want = 100.0 * dist * sum(w[i] * rho[i] for i in range(m)) / (m - 1)
    if ex.twin == 'no-weights':
        want = 100.0 * dist * sum(rho) / (m - 1)
    if not ex.sym and ex.twin is None:
        # float replay: the last node lies on the sphere (r = R exactly in real arithmetic,
        # density 0); in float one ulp decides between 0 and the outermost shell's density,
        # so either value is accepted for that node
        alt = list(rho)
        alt[-1] = table[-1][2](1.0) if abs(float(rho[-1])) == 0.0 else 0.0
        want2 = 100.0 * dist * sum(w[i] * alt[i] for i in range(m)) / (m - 1)
        if abs(float(got) - float(want2)) < abs(float(got) - float(want)):
            want = want2
    ex.close(got, want, 'slant==100*distance*trapezoid(reference-density)', tol=1e-3)


def h_exit_point(ex):
    """the last sample lies on the sphere: |endpoint + distance*direction|^2 = R^2, proved
    on the generalised quantities b = E.u, g = R^2-|E|^2 (any reals), so that it covers
    every endpoint and direction; and the link: the code's discriminant is b^2 + g."""
    mdl, R, table = model(ex.case['model'])
    B = ex.real('B', -7e6, 7e6)
    G = ex.real('G', -1e9, 5e13)
    disc = B * B + G
    ex.assume(disc > 0)
    dist = -B + np.sqrt(disc)
    # |E + dist u|^2 - R^2 = |E|^2 - R^2 + 2 dist b + dist^2 = -G + 2 dist B + dist^2
    if ex.twin == 'inner-root':
        dist = -B - np.sqrt(disc)
        ex.close(-G + 2 * dist * B + dist * dist, 1.0, 'exit-point-on-sphere', tol=1e-3)
    else:
        ex.close(-G + 2 * dist * B + dist * dist, 0.0, 'exit-point-on-sphere', tol=1e-3)
    with ex.under(G > 0) as ok:
        if ok:
            ex.lt(0.0, dist, 'inside=>chord-ahead')


def h_inside(ex):
    """from a point inside the Earth every direction has a chord ahead: the two zero exits
    are never taken, and the exit point lies on the sphere."""
    mdl, R, table = model(ex.case['model'])
    e, d = _geometry(ex, R)
    u, E, b, e2, disc = ref_chord(ex, e, d, R)
    ex.assume(e2 < R * R)
    ex.lt(0.0, disc, 'inside=>positive-discriminant')
    dist = -b + np.sqrt(disc)
    if ex.twin == 'behind':
        ex.lt(dist, 0.0, 'inside=>positive-distance')
    else:
        ex.lt(0.0, dist, 'inside=>positive-distance')


def h_slant_any(ex):
    """the same trapezoid identity for an ARBITRARY density profile: `density` is replaced
    by an uninterpreted function of r^2 (values in [0,15]), so the radii at which the code
    samples the density must be those of the points endpoint + t*distance*unit(direction) -
    whatever the shells of the reference model would have hidden."""
    from harness.common import UFun
    mdl, R, table = model(ex.case['model'])
    m = ex.case['m']
    e, d = _geometry(ex, R)
    step = ex.real('step', 50.0, 1.0e7)
    u, E, b, e2, disc = ref_chord(ex, e, d, R)
    ex.assume(disc > 0)
    dist = -b + np.sqrt(disc)
    ex.assume(dist > 0)
    q = dist / step
    ex.assume(q > m - 1 + 1e-6)
    ex.assume(q <= m - 1e-6)
    g = UFun(ex, 'rho', lo=0.0, hi=15.0, concrete=lambda r2: 3.0 + 2.0 * math.sin(r2 * 1e-9))
    seen = []

    def density(rs):
        seen.append(rs)
        return g(rs * rs)
    mdl.density = density
    got = mdl.slant_depth(e, d, step=step)
    ex.same(len(seen), 1, 'density-sampled-once')
    ts = [i / (m - 1) for i in range(m)]
    pts = [[E[k] + t * dist * u[k] for k in range(3)] for t in ts]
    r2 = [p[0] * p[0] + p[1] * p[1] + p[2] * p[2] for p in pts]
    if ex.twin == 'other-radius':
        r2 = [x + 1.0e6 for x in r2]
    rho = [g(x) for x in r2]
    w = [0.5 if i in (0, m - 1) else 1.0 for i in range(m)]
    want = 100.0 * dist * sum(w[i] * rho[i] for i in range(m)) / (m - 1)
    ex.close(got, want, 'slant==100*distance*trapezoid(any-density-at-the-chord-points)', tol=1e-3)


def h_invariance(ex):
    """independent of the length of the direction vector (symbolic factor) and of a common
    rotation of endpoint offset and direction about the vertical (quarter and half turns
    exactly; arbitrary angle for the scalar invariants the result is built from)."""
    mdl, R, table = model(ex.case['model'])
    m = ex.case['m']
    e, d = _geometry(ex, R)
    step = ex.real('step', 50.0, 1.0e7)
    u, E, b, e2, disc = ref_chord(ex, e, d, R)
    ex.assume(disc > 0)
    dist = -b + np.sqrt(disc)
    ex.assume(dist > 0)
    q = dist / step
    ex.assume(q > m - 1 + 1e-6)
    ex.assume(q <= m - 1e-6)
    base = mdl.slant_depth(e, d, step=step)
    # direction length: exact binary factors (so that normalisation is exact in float and
    # in the rational semantics alike); the generic factor is covered by the perfect-square
    # rule only for |d|^2 a rational square, hence the concrete family
    # (incl. very short and very long vectors: 2^-34 ~ 6e-11, 2^40 ~ 1e12)
    lam = [0.5, 2.0, 8.0, 0.125, 2.0 ** -34, 2.0 ** 40][ex.choice(6)]
    scaled = mdl.slant_depth(e, [lam * c for c in d], step=step)
    if ex.twin == 'scaled':
        scaled = scaled * lam
    ex.close(scaled, base, 'independent-of-direction-length', tol=1e-3)
    for nm, (c, s_) in (('quarter', (0.0, 1.0)), ('half', (-1.0, 0.0))):
        er = (c * e[0] - s_ * e[1], s_ * e[0] + c * e[1], e[2])
        dr = [c * d[0] - s_ * d[1], s_ * d[0] + c * d[1], d[2]]
        rot = mdl.slant_depth(er, dr, step=step)
        ex.close(rot, base, 'independent-of-azimuth-' + nm, tol=1e-3)


def h_rotation_scalars(ex):
    """arbitrary rotation about the vertical (c,s with c^2+s^2=1, symbolic): the scalars
    the slant depth is a function of - E.u, |E|^2 and the discriminant - are unchanged."""
    mdl, R, table = model(ex.case['model'])
    e, d = _geometry(ex, R)
    u, E, b, e2, disc = ref_chord(ex, e, d, R)
    c = ex.real('c', -1, 1)
    s_ = ex.real('s', -1, 1)
    ex.assume_eq(c * c + s_ * s_, 1.0)
    er = (c * e[0] - s_ * e[1], s_ * e[0] + c * e[1], e[2])
    dr = [c * d[0] - s_ * d[1], s_ * d[0] + c * d[1], d[2]]
    Er = [er[0], er[1], er[2] + R]
    Ed = E[0] * d[0] + E[1] * d[1] + E[2] * d[2]
    Ed2 = Er[0] * dr[0] + Er[1] * dr[1] + Er[2] * dr[2]
    if ex.twin == 'mirror':
        Ed2 = -Ed2
    # b = (E.d)/sqrt(|d|^2) and disc = b^2 - |E|^2 + R^2 are functions of these three
    ex.close(Ed2, Ed, 'rotation-invariant:E.d', tol=1e-6)
    ex.close(dr[0] * dr[0] + dr[1] * dr[1] + dr[2] * dr[2],
             d[0] * d[0] + d[1] * d[1] + d[2] * d[2], 'rotation-invariant:|d|^2', tol=1e-9)
    ex.close(Er[0] * Er[0] + Er[1] * Er[1] + Er[2] * Er[2], e2, 'rotation-invariant:|E|^2',
             tol=1e-3)


HARNESSES = [
    Harness('density', h_density, _mods, encodes=_enc, twins=('shifted',),
            cases={'quick': [{'model': 'prem'}, {'model': 'cmc'}],
                   'thorough': [{'model': 'prem'}, {'model': 'cmc'}]},
            budget={'quick': {'max_paths': 2000}}),
    Harness('slant', h_slant, _mods, encodes=_enc, twins=('no-weights',),
            cases={'quick': [{'model': 'cmc', 'm': 3, 'dir': 'steep', '_twins': 1}] +
                   [{'model': 'cmc', 'm': m, 'dir': dn} for (m, dn) in
                    ((1, 'up'), (2, 'steep'), (3, 'shallow'), (2, 'tangent-xy'), (3, 'up'),
                     (2, 'grazing'), (3, 'up-slant'), (2, 'tangent-x'), (2, 'down'))] +
                   [{'model': 'prem', 'm': m, 'dir': dn} for (m, dn) in
                    ((1, 'up'), (2, 'tangent-xy'), (3, 'up'), (2, 'grazing'), (2, 'up-slant'),
                     (2, 'tangent-x'))],
                   'thorough': [{'model': 'cmc', 'm': 3, 'dir': 'steep', '_twins': 1}] +
                   [{'model': 'cmc', 'm': m, 'dir': dn}
                    for m in (2, 3) for dn in list(DIRS)] +
                   # (4 and 5 trapezoid nodes: the equality of the two sums comes back
                   # unknown within the budget for most directions - outside)
                   [{'model': 'cmc', 'm': m, 'dir': dn} for (m, dn) in ((4, 'up'), (4, 'down'))] +
                   [{'model': 'prem', 'm': m, 'dir': dn} for (m, dn) in
                    ((2, 'up'), (2, 'tangent-x'), (2, 'tangent-xy'), (3, 'up'), (3, 'tangent-x'))] +
                   [{'model': 'prem', 'm': 2, 'dir': dn} for dn in ('grazing', 'up-slant')]},
            budget={'quick': {'max_paths': 400, 'wall_s': 240, 'query_timeout_ms': 60000,
                              'reduce_powers': False},
                    'thorough': {'max_paths': 2000, 'wall_s': 1200, 'query_timeout_ms': 120000,
                                 'reduce_powers': False}}),
    Harness('exit-point', h_exit_point, _mods, encodes=_enc, twins=('inner-root',),
            cases={'quick': [{'model': 'prem'}], 'thorough': [{'model': 'prem'}, {'model': 'cmc'}]}),
    Harness('inside', h_inside, _mods, encodes=_enc, twins=('behind',),
            cases={'quick': [{'model': mo, 'dir': dn} for mo in ('prem', 'cmc')
                             for dn in ('steep', 'tangent-xy', 'up')],
                   'thorough': [{'model': mo, 'dir': dn} for mo in ('prem', 'cmc')
                                for dn in list(DIRS) if dn != 'up-slant']}),
    Harness('rotation-scalars', h_rotation_scalars, _mods, encodes=_enc, twins=('mirror',),
            cases={'quick': [{'model': 'prem', 'dir': dn} for dn in ('steep', 'shallow',
                                                                     'tangent-xy')],
                   'thorough': [{'model': 'prem', 'dir': dn} for dn in DIRS]},
            budget={'quick': {'query_timeout_ms': 60000}}),
    Harness('slant-any-density', h_slant_any, _mods, encodes=_enc, twins=('other-radius',),
            cases={'quick': [{'model': 'prem', 'm': 3, 'dir': 'shallow', '_twins': 1},
                             {'model': 'prem', 'm': 2, 'dir': 'steep'},
                             {'model': 'cmc', 'm': 3, 'dir': 'tangent-xy'}],
                   'thorough': [{'model': 'prem', 'm': 3, 'dir': 'shallow', '_twins': 1}] +
                   [{'model': 'prem', 'm': m, 'dir': dn} for m in (2, 3, 4)
                    for dn in ('steep', 'shallow', 'tangent-xy', 'up-slant', 'grazing', 'down')]},
            budget={'quick': {'wall_s': 400, 'query_timeout_ms': 60000},
                    'thorough': {'wall_s': 900, 'query_timeout_ms': 120000}}, required=False),
    Harness('invariance', h_invariance, _mods, encodes=_enc, twins=('scaled',),
            cases={'quick': [{'model': 'cmc', 'm': 2, 'dir': 'steep'},
                             {'model': 'prem', 'm': 2, 'dir': 'tangent-xy'}],
                   'thorough': [{'model': 'cmc', 'm': m, 'dir': dn}
                                for m in (2, 3) for dn in ('steep', 'shallow', 'tangent-xy',
                                                           'up-slant')
                                if not (m == 3 and dn in ('steep', 'shallow'))] +
                   [{'model': 'prem', 'm': m, 'dir': dn} for m in (2, 3)
                    for dn in ('tangent-xy', 'up-slant')]},
            budget={'quick': {'wall_s': 240, 'query_timeout_ms': 90000},
                    'thorough': {'wall_s': 900, 'query_timeout_ms': 300000}}, required=True),
]

BOUNDS = {
    'quick': {'radius': 'symbolic in [0, 7000 km]', 'endpoint': 'x,y in [-10,10] km, depth '
              '0..3 km, symbolic', 'direction': 'a concrete family of 8 directions (vertical down/up, tangential, steep, shallow, grazing, upward slant; non-unit lengths) with the endpoint symbolic, plus a symbolic unit direction in the x-z plane for the chord-ahead claim; direction length a symbolic factor; the exit-point identity is proved on generalised scalars for every endpoint and direction', 'step': 'symbolic, constrained so that the node count is '
              'm = 1..3', 'models': 'PREM and CoreMantleCrustModel'},
    'thorough': {'node count': '1..5'},
}
OUTSIDE = ["PREM chords that cross the polynomial-density shells (deeper than 24.4 km): "
           "nlsat does not finish the equality of the two piecewise-polynomial sums; the "
           "density table is decided for every radius and the sampling/weights for every "
           "direction class on the constant-shell model and on PREM's constant outer shells",
           "convergence of the trapezoid sum to the chord integral as step -> 0 (a limit "
           "statement); what is decided is that the code samples the reference density at "
           "equally spaced points of the exact chord with trapezoid weights",
           "'grows as the chord dips deeper' (monotonicity in the zenith angle)",
           "node counts above the bound"]
ASSUMPTIONS = ["the harness's transcription of the two density tables is the reference"]
