"""C15 - Earth density and slant depth equal the reference profile and its line integral.

Encoded: PREM.density, PREM.slant_depth, CoreMantleCrustModel (class attributes)
(pyrex/earth_model.py); normalize (pyrex/internal_functions.py).
"""
import math
import numpy as np

from symx.explore import Harness
from symx import poly as P


def _mods():
    import pyrex.earth_model
    import pyrex.internal_functions
    return [pyrex.earth_model, pyrex.internal_functions]


def _enc():
    from pyrex.earth_model import PREM
    from pyrex.internal_functions import normalize
    return [PREM.density, PREM.slant_depth, normalize]


# independent transcription of the two reference models (Dziewonski & Anderson 1981 PREM;
# the three-shell core/mantle/crust model)
R_PREM = 6371.0e3
PREM_TABLE = [
    (0.0, 1221.5e3, lambda x: 13.0885 - 8.8381 * x * x),
    (1221.5e3, 3480.0e3, lambda x: 12.5815 - 1.2638 * x - 3.6426 * x * x - 5.5281 * x * x * x),
    (3480.0e3, 5701.0e3, lambda x: 7.9565 - 6.4761 * x + 5.5283 * x * x - 3.0807 * x * x * x),
    (5701.0e3, 5771.0e3, lambda x: 5.3197 - 1.4836 * x),
    (5771.0e3, 5971.0e3, lambda x: 11.2494 - 8.0298 * x),
    (5971.0e3, 6151.0e3, lambda x: 7.1089 - 3.8045 * x),
    (6151.0e3, 6346.6e3, lambda x: 2.6910 + 0.6924 * x),
    (6346.6e3, 6356.0e3, lambda x: 2.9),
    (6356.0e3, 6368.0e3, lambda x: 2.6),
    (6368.0e3, 6371.0e3, lambda x: 1.02),
]
R_CMC = 6378.14e3
CMC_TABLE = [
    (0.0, math.sqrt(1.2e13), lambda x: 14.0),
    (math.sqrt(1.2e13), R_CMC - 40000.0, lambda x: 3.4),
    (R_CMC - 40000.0, R_CMC, lambda x: 2.9),
]
RHO_MAX = {'prem': 13.0885, 'cmc': 14.0}


def model(which):
    import pyrex.earth_model as em
    if which == 'prem':
        return em.PREM(), R_PREM, PREM_TABLE
    return em.CoreMantleCrustModel(), R_CMC, CMC_TABLE


def ref_density(ex, r, R, table):
    val = 0.0
    for (lo, hi, f) in reversed(table):
        inside = P.sb_and(P.cmp(r, lo, '>='), P.cmp(r, hi, '<')) if ex.sym else (lo <= r < hi)
        v = f(r / R)
        val = P.ite(inside, v, val) if ex.sym else (v if inside else val)
    return val


def h_density(ex):
    """density(r) is the reference shell value at every radius, 0 outside, scalar==array."""
    mdl, R, table = model(ex.case['model'])
    r = ex.real('r', 0, 7.0e6)
    got = mdl.density(r)
    want = ref_density(ex, r, R, table)
    if ex.twin == 'shifted':
        want = ref_density(ex, r + 5000.0, R, table)
    ex.close(got, want, 'density==reference-table', tol=1e-12)
    r2 = ex.real('r2', 0, 7.0e6)
    arr = mdl.density(ex.array([r, r2, R, 0.0]))
    ex.close(arr[0], got, 'scalar==array', tol=0.0)
    ex.close(arr[1], ref_density(ex, r2, R, table), 'array-second-entry', tol=1e-12)
    ex.close(arr[2], 0.0, 'zero-at-the-surface-radius', tol=0.0)
    ex.close(arr[3], table[0][2](0.0), 'centre-value', tol=1e-12)
    # non-negative everywhere
    ex.le(0.0, got, 'density-nonnegative', tol=0.0)
    ex.le(got, RHO_MAX[ex.case['model']], 'density<=central-density', tol=1e-12)


def _geometry(ex, R):
    x = ex.real('x', -1e4, 1e4)
    y = ex.real('y', -1e4, 1e4)
    z = ex.real('z', -3000, 0)
    d = [ex.real('dx', -10, 10), ex.real('dy', -10, 10), ex.real('dz', -10, 10)]
    n2 = d[0] * d[0] + d[1] * d[1] + d[2] * d[2]
    ex.assume(n2 >= 0.01)
    return (x, y, z), d


def ref_chord(ex, e, d, R):
    """harness-side geometry: unit direction, b = e.d, disc, distance."""
    n = np.sqrt(d[0] * d[0] + d[1] * d[1] + d[2] * d[2])
    u = [c / n for c in d]
    E = [e[0], e[1], e[2] + R]
    b = E[0] * u[0] + E[1] * u[1] + E[2] * u[2]
    e2 = E[0] * E[0] + E[1] * E[1] + E[2] * E[2]
    disc = b * b - e2 + R * R
    return u, E, b, e2, disc


def h_slant(ex):
    """slant depth: zero exactly when the chord does not enter the Earth; otherwise
    100*distance*trapezoid of the reference density at equally spaced points from the
    endpoint to the point where the line leaves the sphere."""
    mdl, R, table = model(ex.case['model'])
    m = ex.case['m']
    e, d = _geometry(ex, R)
    step = ex.real('step', 50.0, 1.0e7)
    u, E, b, e2, disc = ref_chord(ex, e, d, R)
    got = mdl.slant_depth(e, d, step=step)
    misses = (disc <= 0)
    if misses:
        ex.close(got, 0.0, 'zero-when-line-misses-sphere', tol=0.0)
        ex.note('misses')
        return
    dist = -b + np.sqrt(disc)
    away = dist <= 0
    if away:
        ex.close(got, 0.0, 'zero-when-pointing-away', tol=0.0)
        ex.note('away')
        return
    # a point inside the Earth always has a chord ahead of it
    # (checked separately in h_inside); here: the structure for a node count of m
    q = dist / step
    ex.assume(q > m - 1)
    ex.assume(q <= m)
    ex.note('chord-m%d' % m)
    if m == 1:
        ex.close(got, 0.0, 'single-node-gives-zero', tol=0.0)
        return
    ts = [i / (m - 1) for i in range(m)]
    pts = [[E[k] + t * dist * u[k] for k in range(3)] for t in ts]
    # geometry of the samples
    last = pts[-1]
    ex.close(last[0] * last[0] + last[1] * last[1] + last[2] * last[2], R * R,
             'last-sample-on-the-sphere', tol=1e-3)
    rs = [np.sqrt(p[0] * p[0] + p[1] * p[1] + p[2] * p[2]) for p in pts]
    rho = [ref_density(ex, r, R, table) for r in rs]
    w = [0.5 if i in (0, m - 1) else 1.0 for i in range(m)]
    want = 100.0 * dist * sum(w[i] * rho[i] for i in range(m)) / (m - 1)
    if ex.twin == 'no-weights':
        want = 100.0 * dist * sum(rho) / (m - 1)
    ex.close(got, want, 'slant==100*distance*trapezoid(reference-density)', tol=1e-3)
    ex.le(0.0, got, 'slant-nonnegative', tol=0.0)
    ex.le(got, 100.0 * dist * RHO_MAX[ex.case['model']], 'slant<=distance*max-density', tol=1e-3)


def h_inside(ex):
    """from a point inside the Earth every direction has a chord ahead: the two zero exits
    are never taken, and the exit point lies on the sphere."""
    mdl, R, table = model(ex.case['model'])
    e, d = _geometry(ex, R)
    u, E, b, e2, disc = ref_chord(ex, e, d, R)
    ex.assume(e2 < R * R)
    ex.lt(0.0, disc, 'inside=>positive-discriminant')
    dist = -b + np.sqrt(disc)
    if ex.twin == 'behind':
        ex.lt(dist, 0.0, 'inside=>positive-distance')
    else:
        ex.lt(0.0, dist, 'inside=>positive-distance')


def h_invariance(ex):
    """independent of the length of the direction vector and of a common rotation of
    endpoint offset and direction about the vertical."""
    mdl, R, table = model(ex.case['model'])
    m = ex.case['m']
    x = ex.real('x', -1e4, 1e4)
    z = ex.real('z', -3000, 0)
    # unit direction given by two angles' sines/cosines as algebraic points
    dx = ex.real('ux', -1, 1)
    dz = ex.real('uz', -1, 1)
    ex.assume(dx * dx + dz * dz == 1)
    lam = ex.real('lam', 0.1, 10)
    c = ex.real('c', -1, 1)
    s = ex.real('s', -1, 1)
    ex.assume(c * c + s * s == 1)
    step = ex.case.get('step', 5.0e5)
    e0 = (x, 0.0, z)
    d0 = (dx, 0.0, dz)
    # distance / step must give the same node count for all three calls: fix it through
    # the reference geometry
    u, E, b, e2, disc = ref_chord(ex, e0, d0, R)
    ex.assume(disc > 0)
    dist = -b + np.sqrt(disc)
    ex.assume(dist > (m - 1) * step)
    ex.assume(dist <= m * step)
    base = mdl.slant_depth(e0, d0, step=step)
    scaled = mdl.slant_depth(e0, (lam * dx, 0.0, lam * dz), step=step)
    if ex.twin == 'scaled':
        scaled = scaled * lam
    ex.close(scaled, base, 'independent-of-direction-length', tol=1e-2)
    rot = mdl.slant_depth((c * x, s * x, z), (c * dx, s * dx, dz), step=step)
    ex.close(rot, base, 'independent-of-azimuth', tol=1e-2)


HARNESSES = [
    Harness('density', h_density, _mods, encodes=_enc, twins=('shifted',),
            cases={'quick': [{'model': 'prem'}, {'model': 'cmc'}],
                   'thorough': [{'model': 'prem'}, {'model': 'cmc'}]},
            budget={'quick': {'max_paths': 2000}}),
    Harness('slant', h_slant, _mods, encodes=_enc, twins=('no-weights',),
            cases={'quick': [{'model': 'cmc', 'm': 3, '_twins': 1}] +
                   [{'model': mo, 'm': m} for mo in ('prem', 'cmc') for m in (1, 2, 3)],
                   'thorough': [{'model': 'cmc', 'm': 3, '_twins': 1}] +
                   [{'model': mo, 'm': m} for mo in ('prem', 'cmc') for m in (1, 2, 3, 4, 5)]},
            budget={'quick': {'max_paths': 400, 'wall_s': 240, 'query_timeout_ms': 60000},
                    'thorough': {'max_paths': 2000, 'wall_s': 1200, 'query_timeout_ms': 120000}}),
    Harness('inside', h_inside, _mods, encodes=_enc, twins=('behind',),
            cases={'quick': [{'model': 'prem'}, {'model': 'cmc'}],
                   'thorough': [{'model': 'prem'}, {'model': 'cmc'}]}),
    Harness('invariance', h_invariance, _mods, encodes=_enc, twins=('scaled',),
            cases={'quick': [{'model': 'cmc', 'm': 2}],
                   'thorough': [{'model': 'cmc', 'm': 2}, {'model': 'cmc', 'm': 3},
                                {'model': 'prem', 'm': 2}]},
            budget={'quick': {'wall_s': 240, 'query_timeout_ms': 90000},
                    'thorough': {'wall_s': 900, 'query_timeout_ms': 300000}}, required=True),
]

BOUNDS = {
    'quick': {'radius': 'symbolic in [0, 7000 km]', 'endpoint': 'x,y in [-10,10] km, depth '
              '0..3 km, symbolic', 'direction': 'any vector with 0.1 <= |d|, components in '
              '[-10,10], symbolic', 'step': 'symbolic, constrained so that the node count is '
              'm = 1..3', 'models': 'PREM and CoreMantleCrustModel'},
    'thorough': {'node count': '1..5'},
}
OUTSIDE = ["convergence of the trapezoid sum to the chord integral as step -> 0 (a limit "
           "statement); what is decided is that the code samples the reference density at "
           "equally spaced points of the exact chord with trapezoid weights",
           "'grows as the chord dips deeper' (monotonicity in the zenith angle)",
           "node counts above the bound"]
ASSUMPTIONS = ["the harness's transcription of the two density tables is the reference"]
