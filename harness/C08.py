"""C08 - antenna response is linear, rotation-covariant, scales fields by antenna factor.

Encoded: Antenna.set_orientation/_convert_to_antenna_coordinates/apply_response/receive;
DipoleAntenna.directional_gain/polarization_gain/frequency_response (pyrex/antenna.py);
AntennaSystem.apply_response/receive/set_orientation (pyrex/detector.py); normalize;
Signal.copy/filter_frequencies/__imul__ (pyrex/signals.py).
"""
import math
import numpy as np

from symx.explore import Harness
from symx import poly as P
from harness.C05 import Response, ref_filter


def _mods():
    import pyrex.antenna
    import pyrex.detector
    import pyrex.signals
    import pyrex.internal_functions
    return [pyrex.antenna, pyrex.detector, pyrex.signals, pyrex.internal_functions]


def _enc():
    from pyrex.antenna import Antenna as A, DipoleAntenna as D
    from pyrex.detector import AntennaSystem as S
    from pyrex.internal_functions import normalize
    return [A.set_orientation, A._convert_to_antenna_coordinates, A.apply_response, A.receive,
            D.directional_gain, D.polarization_gain, D.frequency_response, S.apply_response,
            S.receive, S.set_orientation, normalize]


DT = 1e-9


def mk_signal(ex, xs, vt, t0=0.0):
    from pyrex.signals import Signal
    return Signal(ex.array([t0 + i * DT for i in range(len(xs))]), ex.array(xs), value_type=vt)


def make_antenna(ex, H, gd=None, gp=None, **kw):
    """Antenna subclass with an arbitrary frequency response and recorded, harness-chosen
    gains (so that the base-class arithmetic is checked for *any* gains)."""
    from pyrex.antenna import Antenna

    class A(Antenna):
        def __init__(self, *a, **k):
            super().__init__(*a, **k)
            self.calls = []

        def frequency_response(self, f):
            return H(f)

        def directional_gain(self, theta, phi):
            self.calls.append(('d', theta, phi))
            return gd if gd is not None else 1

        def polarization_gain(self, polarization):
            self.calls.append(('p', polarization))
            return gp if gp is not None else 1
    return A(**kw)


def h_value(ex):
    """voltage = filtered signal x directional gain x polarization gain x efficiency, divided
    by the antenna factor exactly for field inputs; output type voltage; other input types
    refused; linear in the signal; direction/polarization None means gain 1."""
    from pyrex.signals import Signal
    N = ex.case['N']
    fr = ex.case['force_real']
    vt = ex.case['vt']
    vt_in = vt                                   # the spelling handed to Signal
    vt = {1: 'voltage', 2: 'field'}.get(vt, vt)  # integer spellings of the two accepted types
    use_d, use_p = ex.case['use']
    xs = ex.reals('x', N, -1, 1)
    ys = ex.reals('y', N, -1, 1)
    gd = ex.real('gd', -2, 2)
    gp = ex.real('gp', -2, 2)
    eff = ex.real('eff', 0.1, 2)
    af = ex.real('af', 0.1, 10)
    H = Response(ex, N, DT)
    ant = make_antenna(ex, H, gd, gp, position=(0.0, 0.0, -100.0), antenna_factor=af,
                       efficiency=eff, noisy=False)
    d = (0.0, 3.0, -4.0) if use_d else None
    pol = (1.0, 2.0, 2.0) if use_p else None
    sig = mk_signal(ex, xs, vt_in)
    if vt not in ('voltage', 'field'):
        ex.raises(lambda: ant.apply_response(sig, direction=d, polarization=pol, force_real=fr),
                  (ValueError,), 'other-value-types-refused')
        return
    out = ant.apply_response(sig, direction=d, polarization=pol, force_real=fr)
    ex.same(out.value_type, Signal.Type.voltage, 'output-is-voltage')
    ex.same(sig.value_type, Signal.Type(1 if vt == 'voltage' else 2), 'input-type-untouched')
    ex.close(sig.values, xs, 'input-values-untouched', tol=0.0)
    filt = ref_filter(ex, xs, H, N, DT, fr)
    fac = (gd if use_d else 1.0) * (gp if use_p else 1.0) * eff
    if vt == 'field':
        fac = fac / af
    if ex.twin == 'no-factor':
        fac = (gd if use_d else 1.0) * (gp if use_p else 1.0) * eff
        if vt != 'field':
            fac = fac / af
    ex.close(out.values, [v * fac for v in filt], 'value==filtered*gains*efficiency(/factor)',
             tol=1e-9)
    ex.close(out.times, sig.times, 'times-kept', tol=0.0)
    ex.same(sum(1 for c in ant.calls if c[0] == 'd'), 1 if use_d else 0, 'directional-gain-asked')
    ex.same(sum(1 for c in ant.calls if c[0] == 'p'), 1 if use_p else 0, 'polarization-gain-asked')
    if use_p:
        pc = [c for c in ant.calls if c[0] == 'p'][0][1]
        ex.close(pc, [1 / 3, 2 / 3, 2 / 3], 'polarization-gain-gets-unit-vector', tol=1e-12)
    # linearity
    a = ex.real('a', -2, 2)
    b = ex.real('b', -2, 2)
    comb = mk_signal(ex, [a * x + b * y for x, y in zip(xs, ys)], vt)
    o2 = ant.apply_response(mk_signal(ex, ys, vt), direction=d, polarization=pol, force_real=fr)
    oc = ant.apply_response(comb, direction=d, polarization=pol, force_real=fr)
    ex.close(oc.values, [a * u + b * v for u, v in zip(out.values, o2.values)], 'linear-in-signal',
             tol=1e-9)


FRAMES = {
    'std': ((0.0, 0.0, 1.0), (1.0, 0.0, 0.0)),
    'tilt': ((0.0, 0.6, 0.8), (1.0, 0.0, 0.0)),
    'skew': ((2 / 3, -1 / 3, 2 / 3), (2 / 3, 2 / 3, -1 / 3)),      # orthonormal pair
}
DIRS = {'a': (2.0, -1.0, 2.0), 'b': (0.0, 3.0, -4.0), 'c': (1.0, 0.0, 0.0), 'along': (0.0, 0.6, 0.8)}


def _rot(axis, c, s, v):
    x, y, z = v
    if axis == 'z':
        return (c * x - s * y, s * x + c * y, z)
    if axis == 'x':
        return (x, c * y - s * z, s * y + c * z)
    return (c * x + s * z, y, -s * x + c * z)


class _NPProxy:
    def __init__(self, real, **over):
        self._real = real
        self.__dict__.update(over)

    def __getattr__(self, n):
        return getattr(self._real, n)


def h_covariance(ex):
    """rotating antenna axes and the source point by the same rotation (each coordinate-axis
    generator, arbitrary angle) leaves the antenna-frame Cartesian coordinates computed by
    _convert_to_antenna_coordinates unchanged; (r, theta, phi) and hence every gain are
    functions of those coordinates only (checked by feeding fresh symbols through the rest
    of the function)."""
    import pyrex.antenna as pa
    from pyrex.antenna import Antenna
    zf, xf = FRAMES[ex.case['frame']]
    axis = ex.case['axis']
    c = ex.real('c', -1, 1)
    s = ex.real('s', -1, 1)
    ex.assume_eq(c * c + s * s, 1.0)
    pos = [ex.real('p%d' % i, -100, 100) for i in range(3)]
    rel = [ex.real('q%d' % i, -10, 10) for i in range(3)]
    rec = []
    inject = {'v': None}
    real_np = pa.np
    real_dot = real_np.dot

    def dot(a, b):
        r = real_dot(a, b)
        if np.shape(r) == (3,):
            rec.append(list(r))
            if inject['v'] is not None:
                return inject['v']
        return r
    if ex.sym:
        pa.np.dot = dot
    else:
        pa.np = _NPProxy(real_np, dot=dot)
    try:
        a0 = Antenna(position=ex.array(pos), z_axis=zf, x_axis=xf, noisy=False)
        pt = [pos[i] + rel[i] for i in range(3)]
        r0, th0, ph0 = a0._convert_to_antenna_coordinates(ex.array(pt))
        a1 = Antenna(position=ex.array(pos), z_axis=zf, x_axis=xf, noisy=False)
        a1.z_axis = ex.array(_rot(axis, c, s, zf))
        a1.x_axis = ex.array(_rot(axis, c, s, xf))
        rr = _rot(axis, c, s, rel)
        if ex.twin == 'unrotated-point':
            rr = rel
        pt1 = [pos[i] + rr[i] for i in range(3)]
        r1, th1, ph1 = a1._convert_to_antenna_coordinates(ex.array(pt1))
        base, rot = rec[-2], rec[-1]
        ex.close(rot, base, 'antenna-frame-coordinates-invariant', tol=1e-9)
        # the independent expectation for the base frame: coordinates = (x.rel, y.rel, z.rel)
        yf = np.cross(zf, xf)
        want = [sum(xf[i] * rel[i] for i in range(3)), sum(yf[i] * rel[i] for i in range(3)),
                sum(zf[i] * rel[i] for i in range(3))]
        ex.close(base, want, 'coordinates==projections-on-antenna-axes', tol=1e-9)
        # everything after the projection depends on the three coordinates only
        X = [ex.real('X%d' % i, -10, 10) for i in range(3)]
        ex.assume(X[0] * X[0] + X[1] * X[1] + X[2] * X[2] >= 0.01)
        inject['v'] = ex.array(X)
        ra, tha, pha = a0._convert_to_antenna_coordinates(ex.array(pt))
        rb, thb, phb = a1._convert_to_antenna_coordinates(ex.array(pt1))
        inject['v'] = None
        ex.close(ra, rb, 'r-function-of-coordinates-only', tol=0.0)
        ex.close(tha, thb, 'theta-function-of-coordinates-only', tol=0.0)
        ex.close(pha, phb, 'phi-function-of-coordinates-only', tol=0.0)
        ex.close(ra * ra, X[0] * X[0] + X[1] * X[1] + X[2] * X[2], 'r^2==x^2+y^2+z^2', tol=1e-9)
        ex.close(np.cos(tha) * ra, X[2], 'r*cos(theta)==z', tol=1e-9)
    finally:
        if ex.sym:
            del pa.np.__dict__['dot']
        else:
            pa.np = real_np


def h_dipole(ex):
    """dipole: directional gain = sin(angle between arrival line and axis), polarization
    gain = projection of the unit polarization on the axis; the response is unchanged when
    axis, arrival direction and polarization are rotated together (quarter/half turns via the
    constructor); re-orienting an existing antenna equals a fresh one; AntennaSystem
    delegates unchanged."""
    import pyrex.antenna as pa
    from pyrex.detector import AntennaSystem
    N = ex.case.get('N', 2)
    fname = ex.case.get('frame', 'tilt')
    axis_v = FRAMES[fname][0]
    dirv = DIRS[ex.case.get('dir', 'a')]
    xs = ex.reals('x', N, -1, 1)
    pol = [ex.real('e%d' % i, -1, 1) for i in range(3)]
    ex.assume(pol[0] * pol[0] + pol[1] * pol[1] + pol[2] * pol[2] >= 0.01)
    old_rand = pa.np.random

    class R:
        def rand(self, *a):
            return np.array([0.3, 0.8, 0.45])
    if ex.sym:
        pa.np.random = R()
    else:
        state = np.random.get_state()
        np.random.seed(3)

    def mk(orientation):
        return pa.DipoleAntenna('d', position=(5.0, -3.0, -120.0), center_frequency=250e6,
                                bandwidth=300e6, temperature=300, resistance=100,
                                orientation=orientation, trigger_threshold=0.0, noisy=False)
    try:
        ant = mk(axis_v)
        sig = mk_signal(ex, xs, 'field')
        out = ant.apply_response(sig, direction=dirv, polarization=ex.array(pol), force_real=True)
        # reference: filter with the antenna's own (concrete) response, then the two gains
        filt = ref_filter(ex, xs, lambda f: complex(ant.frequency_response([f])[0])
                          if not isinstance(f, complex) else f, N, DT, True)
        dn = math.sqrt(sum(c * c for c in dirv))
        dh = [c / dn for c in dirv]
        cosang = sum(dh[i] * axis_v[i] for i in range(3))
        sin_t = math.sqrt(max(0.0, 1 - cosang * cosang))
        pn = np.sqrt(pol[0] * pol[0] + pol[1] * pol[1] + pol[2] * pol[2])
        pg = sum(pol[i] * axis_v[i] for i in range(3)) / pn
        fac = sin_t * pg * ant.effective_height
        if ex.twin == 'cos':
            fac = cosang * pg * ant.effective_height
        ex.close(out.values, [v * fac for v in filt], 'dipole==filter*sin(theta)*(p.axis)*height',
                 tol=1e-9)
        ex.close(ant.directional_gain(theta=math.acos(cosang), phi=0.3), sin_t,
                 'directional-gain==sin(theta)', tol=1e-12)
        # rotation by quarter / half turns about each axis, through the constructor
        for ax in ('z', 'x', 'y'):
            for (c, s) in ((0.0, 1.0), (-1.0, 0.0)):
                a2 = mk(_rot(ax, c, s, axis_v))
                o2 = a2.apply_response(sig, direction=_rot(ax, c, s, dirv),
                                       polarization=ex.array(_rot(ax, c, s, pol)), force_real=True)
                ex.close(o2.values, out.values, 'response-rotation-covariant', tol=1e-9)
        # re-orientation of an existing antenna (directly and through an AntennaSystem)
        z2, x2 = FRAMES['skew']
        fresh = mk(z2)
        fresh.set_orientation(z_axis=z2, x_axis=x2)
        want = fresh.apply_response(sig, direction=dirv, polarization=ex.array(pol),
                                    force_real=True)
        ant.set_orientation(z_axis=z2, x_axis=x2)
        got = ant.apply_response(sig, direction=dirv, polarization=ex.array(pol), force_real=True)
        ex.close(got.values, want.values, 'reoriented-antenna==fresh-antenna', tol=1e-9)
        sysm = AntennaSystem(mk(axis_v))
        _ = sysm.apply_response(sig, direction=dirv, polarization=ex.array(pol), force_real=True)
        sysm.set_orientation(z_axis=z2, x_axis=x2)
        gs = sysm.apply_response(sig, direction=dirv, polarization=ex.array(pol), force_real=True)
        ex.close(gs.values, want.values, 'system-reoriented==fresh-antenna', tol=1e-9)
    finally:
        if ex.sym:
            pa.np.random = old_rand
        else:
            np.random.set_state(state)


def h_receive(ex):
    """receive stores exactly one signal: the sum of the per-polarization responses; a
    length mismatch is refused; AntennaSystem.receive delegates."""
    from pyrex.detector import AntennaSystem
    N = 2
    xs = ex.reals('x', N, -1, 1)
    ys = ex.reals('y', N, -1, 1)
    gp1 = ex.real('g1', -2, 2)
    H = Response(ex, N, DT)
    via_system = ex.case['system']
    ant = make_antenna(ex, H, None, None, position=(0.0, 0.0, -100.0), antenna_factor=2.0,
                       efficiency=0.5, noisy=False)
    pg = {}
    ant.polarization_gain = lambda p: 1.0 * p[0] + 2.0 * p[1] - 1.0 * p[2]
    target = AntennaSystem(ant) if via_system else ant
    s1, s2 = mk_signal(ex, xs, 'field'), mk_signal(ex, ys, 'field')
    p1, p2 = (0.0, 1.0, 0.0), (0.6, 0.0, 0.8)
    target.receive([s1, s2], direction=(0.0, 0.0, 1.0), polarization=[p1, p2], force_real=True)
    ex.same(len(ant.signals), 1, 'one-stored-signal-per-receive')
    f1 = ref_filter(ex, xs, H, N, DT, True)
    f2 = ref_filter(ex, ys, H, N, DT, True)
    g1, g2 = 2.0, 0.6 - 0.8
    sc = 0.5 / 2.0
    if ex.twin == 'first-only':
        g2 = 0.0
    ex.close(ant.signals[0].values, [sc * (g1 * u + g2 * v) for u, v in zip(f1, f2)],
             'stored==sum-of-polarization-responses', tol=1e-9)
    ex.raises(lambda: target.receive([s1, s2], polarization=[p1]), (ValueError,),
              'length-mismatch-refused')
    ex.raises(lambda: target.receive([s1, s2], polarization=p1[:1]), (ValueError,),
              'length-mismatch-refused(2)')
    target.receive(s1, direction=None, polarization=p2)
    ex.same(len(ant.signals), 2, 'single-signal-receive-appends-one')
    f1n = ref_filter(ex, xs, H, N, DT, False)
    ex.close(ant.signals[1].values, [sc * g2 * u if ex.twin != 'first-only' else sc * (0.6 - 0.8) * u
                                     for u in f1n], 'single-receive-value', tol=1e-9)


VT = ['voltage', 'field', 'power', None]
HARNESSES = [
    Harness('value', h_value, _mods, encodes=_enc, twins=('no-factor',),
            cases={'quick': [{'N': 2, 'force_real': True, 'vt': 'field', 'use': (True, True),
                              '_twins': 1}] +
                   [{'N': 2, 'force_real': fr, 'vt': vt, 'use': u} for fr in (True, False)
                    for vt in VT for u in ((True, True), (False, True), (True, False),
                                           (False, False))],
                   'thorough': [{'N': 2, 'force_real': True, 'vt': 'field', 'use': (True, True),
                                 '_twins': 1}] +
                   [{'N': n, 'force_real': fr, 'vt': vt, 'use': u} for n in (2, 3, 4)
                    for fr in (True, False) for vt in VT + ['undefined', 1, 2, 3]
                    for u in ((True, True), (False, True), (True, False), (False, False))]}),
    Harness('covariance', h_covariance, _mods, encodes=_enc, twins=('unrotated-point',),
            cases={'quick': [{'frame': 'std', 'axis': 'z', '_twins': 1}] +
                   [{'frame': f, 'axis': a} for f in ('std', 'tilt') for a in ('z', 'x', 'y')],
                   'thorough': [{'frame': 'std', 'axis': 'z', '_twins': 1}] +
                   [{'frame': f, 'axis': a} for f in FRAMES for a in ('z', 'x', 'y')]},
            budget={'quick': {'query_timeout_ms': 60000, 'wall_s': 200}}),
    Harness('dipole', h_dipole, _mods, encodes=_enc, twins=('cos',),
            cases={'quick': [{'frame': 'tilt', 'dir': 'a'}, {'frame': 'std', 'dir': 'b'}],
                   'thorough': [{'frame': f, 'dir': d, 'N': n} for f in ('std', 'tilt') for d in DIRS
                                for n in (2, 3)]},      # (the thirds of 'skew' are not exact in binary)
            budget={'quick': {'wall_s': 300}}),
    Harness('receive', h_receive, _mods, encodes=_enc, twins=('first-only',),
            cases={'quick': [{'system': False}, {'system': True}],
                   'thorough': [{'system': False}, {'system': True}]}),
]

BOUNDS = {
    'quick': {'signals': '2 samples, symbolic in [-1,1]', 'response': 'one free complex number '
              'per frequency bin', 'gains, efficiency, antenna factor': 'symbolic',
              'rotations': 'each coordinate-axis generator with an arbitrary angle (c,s), for two '
              'antenna frames and every source point (covariance of the antenna-frame '
              'coordinates); quarter/half turns through the constructor for the dipole response',
              'polarization': 'symbolic vector (dipole)'},
    'thorough': {'signals': '2..4 samples', 'frames': 'three'},
}
OUTSIDE = ["the Butterworth response values (scipy.signal.butter/freqs, concrete C code)",
           "composition step: invariance under each generator for all configurations implies "
           "invariance under every product of them, i.e. every proper rotation (pen and paper)",
           "noise (C17) and hit bookkeeping (C09)"]
ASSUMPTIONS = ["arccos/arctan2 as points on the unit circle (cos(acos u) = u, sin(acos u) = "
               "sqrt(1-u^2), atan2 -> (x,y)/rho)"]
