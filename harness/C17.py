"""C17 - thermal noise is band-limited, has the requested RMS, reproducible in absolute time.

Encoded: FullThermalNoise.__init__ (and its generating function), FFTThermalNoise.__init__
(and get_fft_values), FunctionSignal.values/with_times/_full_times/set_buffers
(pyrex/signals.py); Antenna.make_noise/clear (pyrex/antenna.py);
HDF5Writer._get_noise_bases (pyrex/io.py).
"""
import math
import numpy as np
import scipy.constants

from symx.explore import Harness
from symx import poly as P
from harness.common import patched_random


def _mods():
    import pyrex.signals
    import pyrex.antenna
    import pyrex.internal_functions
    return [pyrex.signals, pyrex.antenna, pyrex.internal_functions]


def _enc():
    from pyrex.signals import FullThermalNoise as F, FFTThermalNoise as T, FunctionSignal as S
    from pyrex.antenna import Antenna as A
    from pyrex.io import HDF5Writer as W
    return [F.__init__, T.__init__, S.values.fget, S.with_times, S._full_times, S.set_buffers,
            A.make_noise, A.clear, W._get_noise_bases]


DT = 1.0          # one sample per second: FFT grid frequencies k / (n_all * DT)
RMS = 2.5


def fft_noise(ex, n, band, unique=1, amp=None, rms=RMS, t0=0.0, **kw):
    import pyrex.signals as sg
    times = ex.const_array([t0 + i * DT for i in range(n)])
    return sg.FFTThermalNoise(times, f_band=band, f_amplitude=amp, rms_voltage=rms,
                              uniqueness_factor=unique, **kw)


def amp_fun(ex, tag='a', lo=0.0, hi=3.0):
    vals = {}

    def f(freqs):
        out = []
        for fr in np.asarray(freqs).ravel():
            k = round(float(fr) * 1e6)
            if k not in vals:
                vals[k] = ex.real('%s_%d' % (tag, k), lo, hi)
            out.append(vals[k])
        return ex.array(out) if ex.sym else np.array(out, dtype=float)
    f.vals = vals
    return f


def cos_sum_fft(ex, noise, t, rms, t_start):
    """rms sqrt(2/N_f) sum_k a_k cos(2 pi f_k (t - t_start) - phi_k): the sum of cosines of
    the published basis in the FFT implementation's convention."""
    nf = len(noise.freqs)
    tot = 0.0
    for fr, a, ph in zip(noise.freqs, noise.amps, noise.phases):
        tot = tot + a * np.cos(2 * math.pi * float(fr) * (t - t_start) - ph)
    return tot * math.sqrt(2.0 / nf) * rms


def cos_sum_full(ex, noise, t, rms):
    nf = len(noise.freqs)
    tot = 0.0
    for fr, a, ph in zip(noise.freqs, noise.amps, noise.phases):
        tot = tot + a * np.cos(2 * math.pi * float(fr) * t + ph)
    return tot * math.sqrt(2.0 / nf) * rms


def h_fft(ex):
    """FFT noise: published frequencies inside the band (none for an empty band), DC
    amplitude 0, waveform == sum of cosines of the published basis on its own grid and on
    re-gridded windows (values are a function of absolute time), for symbolic amplitudes and
    phases."""
    import pyrex.signals as sg
    n, unique, band = ex.case['n'], ex.case['unique'], ex.case['band']
    with patched_random(ex, sg, angle=True) as rnd:
        amp = amp_fun(ex) if ex.case.get('amp', 'fun') == 'fun' else \
            (None if ex.case['amp'] == 'rayleigh' else ex.case['amp'])
        noise = fft_noise(ex, n, band, unique=unique, amp=amp, t0=ex.case.get('t0', 0.0))
        t_start = ex.case.get('t0', 0.0)
        n_all = n * unique
        # numpy's own bin frequencies (k * (1/(n d)); k/(n d) differs in the last bit, which
        # matters for a band edge that coincides with a bin)
        grid = [float(f) for f in np.fft.rfftfreq(n_all, DT)]
        inband = [f for f in grid if band[0] <= f <= band[1]]
        ex.close([float(f) for f in noise.freqs], inband, 'published-frequencies==fft-bins-in-band',
                 tol=1e-12)
        ex.same(all(band[0] <= float(f) <= band[1] for f in noise.freqs), True,
                'all-frequencies-inside-band')
        ex.same(len(noise.amps), len(inband), 'one-amplitude-per-frequency')
        ex.same(len(noise.phases), len(inband), 'one-phase-per-frequency')
        for f, a in zip(noise.freqs, noise.amps):
            if float(f) == 0.0:
                ex.close(a, 0.0, 'dc-amplitude-zero', tol=0.0)
        vals = noise.values
        ex.same(len(vals), n, 'one-value-per-sample')
        if len(inband) == 0:
            ex.close(vals, [0.0] * n, 'empty-band-gives-zero', tol=0.0)
            return
        nyq = (n_all % 2 == 0) and any(abs(float(f) - 0.5 / DT) < 1e-12 for f in noise.freqs)
        if nyq:
            ex.note('band-includes-nyquist')
            return
        own = [t_start + i * DT for i in range(n)]
        want = [cos_sum_fft(ex, noise, t, RMS, t_start) for t in own]
        if ex.twin == 'plus-phase':
            noise2 = noise
            want = [sum(a * np.cos(2 * math.pi * float(fr) * (t - t_start) + ph)
                        for fr, a, ph in zip(noise.freqs, noise.amps, noise.phases))
                    * math.sqrt(2.0 / len(noise.freqs)) * RMS for t in own]
        ex.close(vals, want, 'waveform==sum-of-published-cosines', tol=1e-9)
        # absolute time: sub-window, shifted window, super-window share values at shared times
        sub = own[1:-1] if n >= 4 else own[1:]
        w1 = noise.with_times(ex.const_array(sub))
        ex.close(w1.values, [cos_sum_fft(ex, noise, t, RMS, t_start) for t in sub],
                 'sub-window-same-values-at-shared-times', tol=1e-9)
        sup = [own[0] - DT] + own + [own[-1] + DT]
        w2 = noise.with_times(ex.const_array(sup))
        ex.close(list(w2.values)[1:-1], list(vals), 'super-window-same-values-at-shared-times',
                 tol=1e-9)
        if unique > 1:
            later = [own[-1] + DT * (i + 1) for i in range(n)]
            w3 = noise.with_times(ex.const_array(later))
            ex.close(w3.values, [cos_sum_fft(ex, noise, t, RMS, t_start) for t in later],
                     'unique-trace-continues-the-same-cosines', tol=1e-9)
        if n >= 4:
            # re-gridding the object itself (times assignment, as resample() does) onto a
            # coarser grid of shared sample times: still the same function of absolute time
            want_c = [cos_sum_fft(ex, noise, t, RMS, t_start) for t in own[::2]]
            noise.times = ex.const_array(own[::2])
            ex.close(noise.values, want_c, 'in-place-regrid-same-values-at-shared-times', tol=1e-9)
            noise.times = ex.const_array(own)
            ex.close(noise.values, want, 'in-place-regrid-back-restores-the-waveform', tol=1e-9)


def h_full(ex):
    """Full (exact) noise: frequencies linspace(f_min, f_max, endpoint=False) inside the band,
    DC amplitude 0, value(t) == sum of cosines of the published basis at arbitrary symbolic
    time, re-gridding re-evaluates the same function."""
    import pyrex.signals as sg
    n, band, unique = ex.case['n'], ex.case['band'], ex.case.get('unique', 1)
    with patched_random(ex, sg, angle=True) as rnd:
        times = ex.const_array([i * DT for i in range(n)])
        noise = sg.FullThermalNoise(times, f_band=band, f_amplitude=amp_fun(ex), rms_voltage=RMS,
                                    uniqueness_factor=unique)
        nf = len(noise.freqs)
        dur = (n - 1) * DT
        want_n = max(1, int(max(1.0, (band[1] - band[0]) * dur) * max(1, unique)))
        ex.same(nf, want_n, 'number-of-frequencies')
        ex.close([float(f) for f in noise.freqs],
                 [band[0] + (band[1] - band[0]) * k / nf for k in range(nf)],
                 'frequencies==linspace-without-endpoint', tol=1e-12)
        ex.same(all(band[0] <= float(f) < band[1] for f in noise.freqs), True,
                'all-frequencies-inside-band')
        for f, a in zip(noise.freqs, noise.amps):
            if float(f) == 0.0:
                ex.close(a, 0.0, 'dc-amplitude-zero', tol=0.0)
        vals = noise.values
        own = [i * DT for i in range(n)]
        want = [cos_sum_full(ex, noise, t, RMS) for t in own]
        if ex.twin == 'minus-phase':
            want = [sum(a * np.cos(2 * math.pi * float(fr) * t - ph)
                        for fr, a, ph in zip(noise.freqs, noise.amps, noise.phases))
                    * math.sqrt(2.0 / nf) * RMS for t in own]
        ex.close(vals, want, 'waveform==sum-of-published-cosines', tol=1e-9)
        other = [0.5 + 0.75 * i for i in range(3)]
        w = noise.with_times(ex.const_array(other))
        ex.close(w.values, [cos_sum_full(ex, noise, t, RMS) for t in other],
                 're-gridded-values-are-the-same-function-of-absolute-time', tol=1e-9)


def h_rms(ex):
    """unit amplitudes, band without DC/Nyquist: mean square over one period of the FFT
    trace == rms^2 for every choice of phases; rms == sqrt(k_B T R bandwidth) when
    temperature and resistance are given."""
    import pyrex.signals as sg
    n, band = ex.case['n'], ex.case['band']
    with patched_random(ex, sg, angle=True) as rnd:
        noise = fft_noise(ex, n, band, amp=1.0, rms=RMS)
        vals = list(noise.values)
        ms = sum(v * v for v in vals) / n
        ex.close(ms, RMS * RMS if ex.twin != 'double' else 2 * RMS * RMS,
                 'mean-square==rms^2-for-unit-amplitudes', tol=1e-6)
        T = ex.real('T', 1.0, 1000.0)
        R = ex.real('R', 1.0, 1000.0)
        times = ex.const_array([i * DT for i in range(n)])
        for cls in (sg.FFTThermalNoise, sg.FullThermalNoise):
            nz = cls(times, f_band=band, f_amplitude=1.0, temperature=T, resistance=R)
            ex.close(nz.rms * nz.rms, scipy.constants.k * T * R * (band[1] - band[0]),
                     'rms^2==k_B*T*R*bandwidth', tol=1e-30, rtol=1e-9)
            nz2 = cls(times, f_band=band, f_amplitude=1.0, temperature=T, resistance=R,
                      rms_voltage=RMS)
            ex.close(nz2.rms, RMS, 'explicit-rms-takes-precedence', tol=0.0)
        ex.raises(lambda: sg.FFTThermalNoise(times, f_band=band), (ValueError,),
                  'rms-or-temperature-required')
        ex.raises(lambda: sg.FFTThermalNoise(times, f_band=(band[1], band[0]), rms_voltage=1.0),
                  (ValueError,), 'inverted-band-refused')


def h_basis(ex):
    """two objects publishing the same basis produce identical waveforms (also when the basis
    is assigned after a first evaluation); independent objects differ for some draw; an
    antenna serves the same realisation until the noise is reset; the writer records the
    master's basis."""
    import pyrex.signals as sg
    import pyrex.antenna as pa
    from pyrex.io import HDF5Writer
    n, band = ex.case['n'], ex.case['band']
    cls_name = ex.case.get('cls', 'fft')
    with patched_random(ex, sg, angle=True) as rnd:
        times = ex.const_array([i * DT for i in range(n)])
        cls = sg.FFTThermalNoise if cls_name == 'fft' else sg.FullThermalNoise
        A_ = cls(times, f_band=band, f_amplitude=amp_fun(ex, 'a'), rms_voltage=RMS)
        band_b = ex.case.get('band_b', band)
        B_ = cls(times, f_band=band_b, f_amplitude=amp_fun(ex, 'b'), rms_voltage=RMS)
        va = list(A_.values)
        vb = list(B_.values)          # B evaluated once with its own basis
        if len(A_.freqs):
            diff = P.sb_or(*[P.cmp(x, y, '!=') for x, y in zip(va, vb)]) if ex.sym else True
            ex.exists(diff, 'independent-objects-differ-for-some-draw')
        if band_b != band:
            # a complete basis handed over from an object with other frequencies
            B_.freqs = A_.freqs
        B_.amps = A_.amps
        B_.phases = A_.phases
        if ex.twin != 'keep-own':
            pass
        else:
            B_.phases = A_.phases * 0.5
        win = [0.0 + DT * i for i in range(1, n)]
        wa = A_.with_times(ex.const_array(win))
        wb = B_.with_times(ex.const_array(win))
        ex.close(wb.values, wa.values, 'same-basis=>same-waveform(after-reassignment)', tol=1e-9)
        ex.close(B_.values, va, 'same-basis=>same-waveform(own-grid)', tol=1e-9)
    # antenna master
    with patched_random(ex, sg, angle=True) as rnd2:
        ant = pa.Antenna(position=(0.0, 0.0, -1.0), freq_range=band, noise_rms=RMS,
                         unique_noise_waveforms=1)
        t1 = ex.const_array([i * DT for i in range(n)])
        t2 = ex.const_array([i * DT for i in range(1, n)])
        n1 = ant.make_noise(t1)
        n2 = ant.make_noise(t2)
        ex.close(list(n2.values), list(n1.values)[1:], 'antenna-serves-one-realisation', tol=1e-9)
        master = ant._noise_master
        w = HDF5Writer.__new__(HDF5Writer)
        fr, am, ph = w._get_noise_bases(ant)
        ex.same(fr is master.freqs and am is master.amps and ph is master.phases, True,
                'writer-records-the-master-basis')
        ant.clear(reset_noise=False)
        ex.same(ant._noise_master is master, True, 'clear-keeps-the-realisation')
        ant.clear(reset_noise=True)
        n3 = ant.make_noise(t1)
        ex.same(ant._noise_master is not master, True, 'reset-creates-a-new-realisation')
        if len(master.freqs) and not (n % 2 == 0 and band[1] >= 0.5 and len(master.freqs) == 1):
            diff = P.sb_or(*[P.cmp(x, y, '!=') for x, y in zip(n3.values, n1.values)]) \
                if ex.sym else True
            ex.exists(diff, 'new-realisation-can-differ')


BANDS = {'inside': (0.15, 0.45), 'touch-zero': (0.0, 0.3), 'above-nyquist': (0.2, 0.9),
         'empty': (0.26, 0.32), 'narrow': (0.3, 0.35)}
HARNESSES = [
    Harness('fft-noise', h_fft, _mods, encodes=_enc, twins=('plus-phase',),
            cases={'quick': [{'n': 5, 'unique': 1, 'band': BANDS['inside'], '_twins': 1}] +
                   [{'n': n, 'unique': u, 'band': BANDS[b]} for (n, u, b) in
                    ((5, 1, 'touch-zero'), (6, 1, 'inside'), (7, 1, 'above-nyquist'),
                     (6, 1, 'empty'), (3, 2, 'inside'), (3, 3, 'touch-zero'), (4, 2, 'narrow'))] +
                   [{'n': 5, 'unique': 1, 'band': BANDS['inside'], 'amp': 'rayleigh'},
                    {'n': 5, 'unique': 2, 'band': BANDS['inside'], 'amp': 1.5, 't0': 3.0}],
                   'thorough': [{'n': 5, 'unique': 1, 'band': BANDS['inside'], '_twins': 1}] +
                   [{'n': n, 'unique': u, 'band': BANDS[b]} for n in (3, 4, 5, 6, 7, 8)
                    for u in (1, 2) for b in BANDS] +
                   [{'n': 4, 'unique': 3, 'band': BANDS[b], 'amp': a} for b in ('inside', 'narrow')
                    for a in ('rayleigh', 0.7)]},
            budget={'quick': {'wall_s': 300, 'query_timeout_ms': 60000},
                    'thorough': {'wall_s': 900, 'query_timeout_ms': 120000}}),
    Harness('full-noise', h_full, _mods, encodes=_enc, twins=('minus-phase',),
            cases={'quick': [{'n': 4, 'band': (0.2, 1.3)}, {'n': 5, 'band': (0.0, 0.8)},
                             {'n': 3, 'band': (0.1, 0.9), 'unique': 2}],
                   'thorough': [{'n': n, 'band': b, 'unique': u} for n in (3, 4, 5, 6)
                                for b in ((0.2, 1.3), (0.0, 0.8), (0.4, 0.5)) for u in (1, 2)]},
            budget={'quick': {'wall_s': 300, 'query_timeout_ms': 60000}}),
    Harness('rms', h_rms, _mods, encodes=_enc, twins=('double',),
            cases={'quick': [{'n': 5, 'band': (0.15, 0.45)}, {'n': 7, 'band': (0.1, 0.3)}],
                   'thorough': [{'n': n, 'band': b} for n in (5, 7, 9)
                                for b in ((0.15, 0.45), (0.1, 0.3))]},
            budget={'quick': {'wall_s': 300, 'query_timeout_ms': 90000}}),
    Harness('basis', h_basis, _mods, encodes=_enc, twins=('keep-own',),
            cases={'quick': [{'n': 5, 'band': (0.15, 0.45)},
                             {'n': 4, 'band': (0.2, 0.9), 'cls': 'full'},
                             {'n': 4, 'band': (0.2, 0.9), 'band_b': (0.1, 0.6), 'cls': 'full'}],
                   'thorough': [{'n': n, 'band': b, 'cls': c} for n in (4, 5, 6)
                                for b in ((0.15, 0.45), (0.2, 0.9)) for c in ('fft', 'full')] +
                   [{'n': n, 'band': (0.2, 0.9), 'band_b': bb, 'cls': 'full'} for n in (4, 5)
                    for bb in ((0.1, 0.6), (0.3, 0.8))]},
            budget={'quick': {'wall_s': 300, 'query_timeout_ms': 60000}}),
]

BOUNDS = {
    'quick': {'grids': '3..7 samples (FFT length n*uniqueness <= 9), dt = 1 s',
              'bands': 'inside, touching zero, above Nyquist, empty, narrow',
              'amplitudes': 'symbolic per frequency in [0,3] (function form), constant, default '
              'Rayleigh draw (symbolic >= 0)', 'phases': 'symbolic angles in [0, 2 pi)',
              'T, R': 'symbolic in [1,1000]'},
    'thorough': {'grids': '3..8 samples x uniqueness 1..3'},
}
OUTSIDE = ["statistics of the Rayleigh draw ('on average')",
           "bands that contain the Nyquist bin of an even-length FFT: there the generated "
           "amplitude is half the published one at grid times (reported in DESIGN.md, not "
           "asserted either way)",
           "FFT lengths beyond the bound; IEEE rounding (tolerance 1e-9 for |values| <= ~10)"]
ASSUMPTIONS = ["scipy.fft.irfft / rfftfreq compute the documented transform (shim compared "
               "with scipy each run)", "np.interp(..., period=) per its documentation (the "
               "shim derives its affine map from numpy itself)"]
