"""C14 - interactions conserve energy, cross sections consistent, event trees well formed.

Encoded: GQRSInteraction.choose_interaction/choose_inelasticity/choose_shower_fractions/
_choose_secondary_fractions/total_cross_section/cross_section; the CTWInteraction overrides;
Interaction.interaction_length/total_interaction_length; Event.__init__/add_children/
get_children/get_parent/get_from_level/__iter__/__len__ (pyrex/particle.py).
"""
import contextlib
import math
import numpy as np
import scipy.constants

from symx.explore import Harness
from symx import poly as P

LN10 = math.log(10.0)


def _mods():
    import pyrex.particle
    import pyrex.internal_functions
    return [pyrex.particle, pyrex.internal_functions]


def _enc():
    import pyrex.particle as p
    G, C, I, E = p.GQRSInteraction, p.CTWInteraction, p.Interaction, p.Event
    return [G.choose_interaction, G.choose_inelasticity, G.choose_shower_fractions,
            G._choose_secondary_fractions, G.total_cross_section.fget, G.cross_section.fget,
            C.choose_interaction, C.choose_inelasticity, C.total_cross_section.fget,
            C.cross_section.fget, I.interaction_length.fget, I.total_interaction_length.fget,
            E.__init__, E.add_children, E.get_children, E.get_parent, E.get_from_level,
            E.__iter__, E.__len__]


class HRandom:
    def __init__(self, ex, poisson=None):
        self.ex = ex
        self.n = 0
        self.draws = []
        self.np_ = 0
        self.poisson_counts = poisson

    def rand(self, *shape):
        self.n += 1
        v = self.ex.real('rnd_%d' % self.n, 0.0, 1.0, hi_strict=True)
        self.draws.append(v)
        return v

    random_sample = rand

    def poisson(self, lam=1.0, size=None):
        self.np_ += 1
        if self.poisson_counts is not None:
            return self.poisson_counts[(self.np_ - 1) % len(self.poisson_counts)]
        return self.ex.choice(2)


class _NP:
    def __init__(self, real, rnd, interp=None):
        self._real = real
        self.random = rnd
        if interp is not None:
            self.interp = interp

    def __getattr__(self, n):
        return getattr(self._real, n)


@contextlib.contextmanager
def randomness(ex, poisson=None, stub_interp=False):
    import pyrex.particle as pp
    rnd = HRandom(ex, poisson)
    old = pp.np
    cnt = {'n': 0}

    def interp(x, xp, fp, **k):
        # np.interp(u, cumulative, linspace(0,1,n)) lies in [0,1] (range of fp); any value of
        # that range is allowed here
        cnt['n'] += 1
        return ex.real('sec_y_%d' % cnt['n'], 0.0, 1.0)
    if ex.sym:
        old_r = pp.np.random
        pp.np.random = rnd
        old_i = pp.np.__dict__.get('interp')
        if stub_interp:
            pp.np.interp = interp
        try:
            yield rnd
        finally:
            pp.np.random = old_r
            if stub_interp:
                if old_i is None:
                    del pp.np.__dict__['interp']
                else:
                    pp.np.interp = old_i
    else:
        pp.np = _NP(np, rnd, interp if stub_interp else None)
        try:
            yield rnd
        finally:
            pp.np = old


class Pt:
    """A stand-in particle: id (enum) and energy."""

    def __init__(self, pid, energy):
        from pyrex.particle import Particle
        self.Type = Particle.Type
        self.id = Particle.Type(pid)
        self.energy = energy


def _energy_from_eps(ex, eps):
    """E = 10**eps as a term whose log10 is eps again (log(exp(u)) rewriting)."""
    if ex.sym:
        return P.exp(P.mul(eps, LN10))
    return math.exp(eps * LN10)


CTW = {1: dict(c0=-1.826, cc=(-17.31, -6.406, 1.431, -17.91), nc=(-17.31, -6.448, 1.431, -18.61)),
       -1: dict(c0=-1.033, cc=(-15.95, -7.247, 1.569, -17.72), nc=(-15.95, -7.296, 1.569, -18.30))}


def h_ctw_sigma(ex):
    """CTW (default model): sigma_cc + sigma_nc = sigma_total, each positive; log10 sigma is
    the published parameterisation (eq. 7 of Connolly-Thorne-Waters 2011) and increases with
    energy on [1e3, 1e12] GeV; interaction lengths are 1/(N_A sigma)."""
    from pyrex.particle import CTWInteraction
    pid = ex.case['pid']
    sgn = 1 if pid > 0 else -1
    tab = CTW[sgn]
    c0 = tab['c0']
    # free variable L = ln(eps - c0); eps in [3, 12]
    L = ex.real('L', math.log(3 - c0), math.log(12 - c0))
    Ld = P.dual(L) if ex.sym else L
    eps = c0 + np.exp(Ld)
    E = _energy_from_eps(ex, eps)
    res = {}
    for kind in ('cc', 'nc'):
        it = CTWInteraction.__new__(CTWInteraction)
        it.particle = Pt(pid, E)
        it.kind = kind
        res[kind] = it
    SC = 1e33       # cross sections are ~1e-33 cm^2: compare them in units of 1e-33
    s_cc = res['cc'].cross_section * SC
    s_nc = res['nc'].cross_section * SC
    s_tot = res['cc'].total_cross_section * SC
    ex.close(P.primal(s_cc) + P.primal(s_nc) if ex.sym else s_cc + s_nc,
             P.primal(s_tot) if ex.sym else s_tot, 'sigma_cc+sigma_nc==sigma_total',
             tol=1e-12, rtol=1e-9)
    ex.close(P.primal(res['nc'].total_cross_section * SC) if ex.sym else
             res['nc'].total_cross_section * SC, P.primal(s_tot) if ex.sym else s_tot, 'total-independent-of-kind', tol=1e-12, rtol=1e-9)
    for kind, s in (('cc', s_cc), ('nc', s_nc), ('tot', s_tot)):
        ex.lt(0.0, P.primal(s) if ex.sym else s, 'sigma-positive-' + kind)
    # the published power law, and its derivative
    for kind, s in (('cc', s_cc), ('nc', s_nc)):
        c1, c2, c3, c4 = tab[kind]
        Lp = P.primal(Ld) if ex.sym else L
        power = c1 + c2 * Lp + c3 * Lp * Lp + c4 / Lp
        if ex.twin == 'c3' and kind == 'cc':
            power = c1 + c2 * Lp + (c3 + 0.01) * Lp * Lp + c4 / Lp
        want = np.exp(power * LN10) * SC
        ex.close(P.primal(s) if ex.sym else s, want, 'sigma==published-parameterisation-' + kind,
                 tol=1e-12, rtol=1e-9)
        if ex.sym:
            # d(log10 sigma)/dL > 0  (and d eps/dL = e^L > 0): sigma increases with energy
            dpow = c2 + 2 * c3 * Lp - c4 / (Lp * Lp)
            ex.lt(0.0, dpow, 'dlog(sigma)/dL>0-' + kind)
            # the code's own derivative agrees (forward-mode through the real function)
            sp = P.primal(s)
            ex.close(P.tangent(s), sp * LN10 * dpow, 'code-derivative==analytic-' + kind,
                     tol=1e-9, rtol=1e-6)
    NA = scipy.constants.N_A
    for kind in ('cc', 'nc'):
        s = res[kind].cross_section
        s_tot = res['cc'].total_cross_section
        ex.close((P.primal(res[kind].interaction_length) if ex.sym else res[kind].interaction_length)
                 * NA * (P.primal(s) if ex.sym else s), 1.0, 'length*N_A*sigma==1-' + kind, tol=1e-9)
    ex.close((P.primal(res['cc'].total_interaction_length) if ex.sym else
              res['cc'].total_interaction_length) * NA * (P.primal(s_tot) if ex.sym else s_tot),
             1.0, 'total_length*N_A*sigma_total==1', tol=1e-9)


def h_gqrs_sigma(ex):
    """GQRS: sigma = coeff * E^0.363 positive and increasing; lengths = 1/(N_A sigma); the
    solver is also asked whether cc+nc = total (the property demands it of the default model
    only; the answer is recorded)."""
    from pyrex.particle import GQRSInteraction
    pid = ex.case['pid']
    u1 = ex.real('u1', 3 * LN10, 12 * LN10)
    u2 = ex.real('u2', 3 * LN10, 12 * LN10)
    ex.assume(u1 < u2)
    out = {}
    for nm, u in (('1', u1), ('2', u2)):
        E = P.exp(u) if ex.sym else math.exp(u)
        for kind in ('cc', 'nc'):
            it = GQRSInteraction.__new__(GQRSInteraction)
            it.particle = Pt(pid, E)
            it.kind = kind
            out[(nm, kind)] = it
    SC = 1e33
    for kind in ('cc', 'nc'):
        a, b = out[('1', kind)], out[('2', kind)]
        ex.lt(0.0, a.cross_section * SC, 'gqrs-sigma-positive-' + kind)
        if ex.twin == 'decreasing':
            ex.assume(u2 - u1 >= 1.0)
            ex.lt(b.cross_section * SC, a.cross_section * SC, 'gqrs-sigma-increasing-' + kind)
        else:
            ex.lt(a.cross_section * SC, b.cross_section * SC, 'gqrs-sigma-increasing-' + kind)
        ex.close(a.interaction_length * scipy.constants.N_A * a.cross_section, 1.0,
                 'gqrs-length*N_A*sigma==1-' + kind, tol=1e-9)
    a = out[('1', 'cc')]
    ex.lt(a.total_cross_section * SC, out[('2', 'cc')].total_cross_section * SC,
          'gqrs-total-increasing')
    coeff = {True: (7.84e-36, 5.53e-36, 2.31e-36), False: (7.80e-36, 5.52e-36, 2.29e-36)}[pid > 0]
    ex.close(a.total_cross_section * SC, coeff[0] * SC * np.exp(0.363 * u1),
             'gqrs-total==coeff*E^0.363', tol=1e-12, rtol=1e-9)
    ex.close(a.cross_section * SC, coeff[1] * SC * np.exp(0.363 * u1), 'gqrs-cc==coeff*E^0.363',
             tol=1e-12, rtol=1e-9)


def h_choice(ex):
    """interaction type: GQRS CC iff u < 0.6865254; CTW NC iff u < d1 + d2 ln(eps - d0)."""
    import pyrex.particle as pp
    model = ex.case['model']
    with randomness(ex) as rnd:
        eps = ex.real('eps', 3, 12)
        E = _energy_from_eps(ex, eps)
        cls = pp.GQRSInteraction if model == 'gqrs' else pp.CTWInteraction
        it = cls.__new__(cls)
        it.particle = Pt(ex.case.get('pid', 12), E)
        k = it.choose_interaction()
        u = rnd.draws[0]
        T = pp.Interaction.Type
        if model == 'gqrs':
            thr = 0.6865254
            cc = (k == T.charged_current)
        else:
            thr = 0.252162 + 0.0256 * np.log(eps - 1.76)
            cc = (k == T.neutral_current)      # for CTW the variate selects NC below thr
        if ex.twin == 'flipped':
            cc = not cc
        if cc:
            ex.lt(u, thr, 'type-region-below-threshold')
        else:
            ex.le(thr, u, 'type-region-above-threshold', tol=0.0)
        ex.same(k in (T.charged_current, T.neutral_current), True, 'type-is-cc-or-nc')
        ex.same(len(rnd.draws), 1, 'one-variate')


def h_gqrs_y(ex):
    """GQRS inelasticity (-ln(1/e + u(1-1/e)))^2.5 lies in [0,1]."""
    import pyrex.particle as pp
    with randomness(ex) as rnd:
        it = pp.GQRSInteraction.__new__(pp.GQRSInteraction)
        it.particle = Pt(12, 1e9)
        if ex.sym:
            P.note_exp_point(-1.0, math.exp(-1.0))
            P.note_exp_point(0.0, 1.0)
        y = it.choose_inelasticity()
        ex.le(0.0, y, 'gqrs-y>=0', tol=1e-9)
        if ex.twin == 'half':
            ex.le(y, 0.5, 'gqrs-y<=1', tol=1e-6)
        else:
            ex.le(y, 1.0, 'gqrs-y<=1', tol=1e-6)


def h_ctw_y(ex):
    """CTW inelasticity lies in [y_min, y_max] of its branch ([0,1e-3] low-y, [1e-3,1] else)
    and equals the published inverse-CDF formula, on a grid of energies with the variates
    symbolic."""
    import pyrex.particle as pp
    eps = ex.case['eps']
    pid = ex.case['pid']
    kind = ex.case['kind']
    E = 10.0 ** eps
    with randomness(ex) as rnd:
        it = pp.CTWInteraction.__new__(pp.CTWInteraction)
        it.particle = Pt(pid, E)
        it.kind = kind
        epsf = float(np.log10(E))
        thr = 0.128 * math.sin(-0.197 * (epsf - 21.8))
        # concrete points of exp/log the solver may need: endpoints r = 0 and r = 1
        low = None
        y = it.choose_inelasticity()
        u_low, r = rnd.draws[0], rnd.draws[1]
        is_low = (u_low < thr) if not ex.sym else None
        if ex.sym:
            # which branch was taken is in the path condition: ask the solver
            with ex.under(u_low < thr) as f:
                is_low = f
        if is_low:
            a0, a1, a2, a3 = 0.0, 0.0941, 4.72, 0.456
            ymin, ymax = 0.0, 1e-3
        else:
            if kind == 'cc':
                a0, a1, a2, a3 = (-0.008, 0.26, 3.0, 1.7) if pid > 0 else (-0.0026, 0.085, 4.1, 1.7)
            else:
                a0, a1, a2, a3 = -0.005, 0.23, 3.0, 1.7
            ymin, ymax = 1e-3, 1.0
        c1 = a0 - a1 * math.exp(-(epsf - a2) / a3)
        c2 = 2.55 - 0.0949 * epsf
        ex.note('low-y' if is_low else 'high-y')
        if ex.sym:
            A, B = ymax - c1, ymin - c1
            for base in (A, B):
                P.note_exp_point(math.log(base), base)
            if is_low:
                p = 1 - 1 / c2
                for base in (A, B):
                    P.note_exp_point(math.log(base), base)
                    P.note_exp_point(p * math.log(base), base ** p)
                for rr in (0.0, 1.0):
                    inner = rr * A ** p + (1 - rr) * B ** p
                    P.note_exp_point(math.log(inner), inner)
                    P.note_exp_point((c2 / (c2 - 1)) * math.log(inner), inner ** (c2 / (c2 - 1)))
            else:
                for rr in (0.0, 1.0):
                    P.note_exp_point(rr * math.log(A), A ** rr)
                    P.note_exp_point((rr - 1) * math.log(B), B ** (rr - 1))
            y = it.__class__.choose_inelasticity.__get__(it)() if False else y
        lo_b, hi_b = (ymin, ymax) if ex.twin != 'narrow' else (ymin, ymin + 0.3 * (ymax - ymin))
        ex.le(lo_b, y, 'ctw-y>=y_min', tol=1e-5)
        ex.le(y, hi_b, 'ctw-y<=y_max', tol=1e-5)
        ex.le(0.0, y, 'ctw-y>=0', tol=1e-5)
        ex.le(y, 1.0, 'ctw-y<=1', tol=1e-5)
        # published formula (eqs. 14/15), evaluated by the harness
        if not ex.sym:
            if is_low:
                want = c1 + (r * (ymax - c1) ** (1 - 1 / c2) + (1 - r) * (ymin - c1) ** (1 - 1 / c2)) \
                    ** (c2 / (c2 - 1))
            else:
                want = (ymax - c1) ** r / (ymin - c1) ** (r - 1) + c1
            ex.close(y, want, 'ctw-y==published-inverse-cdf', tol=1e-9)


def h_fractions(ex):
    """shower fractions: non-negative, sum <= 1; nu_e CC: sum == 1; NC: (0, y); with
    secondaries the pair is either the primary pair or (em_sec, had_sec)/E with
    em_sec + had_sec <= E (1 - y)."""
    import pyrex.particle as pp
    pid, kind, sec = ex.case['pid'], ex.case['kind'], ex.case['secondaries']
    model = ex.case.get('model', 'ctw')
    cls = pp.GQRSInteraction if model == 'gqrs' else pp.CTWInteraction
    E = ex.case.get('E', 3e19)
    with randomness(ex, poisson=ex.case.get('poisson'), stub_interp=True) as rnd:
        it = cls.__new__(cls)
        it.particle = Pt(pid, E)
        it.kind = kind
        it.include_secondaries = sec
        # the energy-conservation retry loop: every iteration is an independent redraw through
        # the same code with no state carried over (only the loop counter), so one iteration
        # with arbitrary variates covers them all; the redraw branch is assumed away
        calls = {'n': 0}
        orig = it._choose_secondary_fractions

        def counted(lepton_energy, energy_index):
            calls['n'] += 1
            em_s, had_s = orig(lepton_energy, energy_index)
            if calls['n'] >= 1:
                ex.assume(em_s + had_s <= lepton_energy)
            return em_s, had_s
        it._choose_secondary_fractions = counted
        y = ex.real('y', 0.0, 0.6)
        it.inelasticity = y
        if ex.sym:
            for f in (0.1, 10 ** -0.5, 1.0, 10 ** 0.5):
                if E * f > 0:
                    P.note_exp_point(math.log(E * f), E * f)
        em, had = it.choose_shower_fractions()
        ex.le(0.0, em, 'em>=0', tol=0.0)
        ex.le(0.0, had, 'had>=0', tol=0.0)
        if ex.twin == 'half':
            ex.le(em + had, 0.5, 'em+had<=1', tol=1e-9)
        else:
            ex.le(em + had, 1.0, 'em+had<=1', tol=1e-9)
        T = pp.Interaction.Type
        if it.kind == T.neutral_current:
            ex.close(em, 0.0, 'nc-em==0', tol=0.0)
            ex.close(had, y, 'nc-had==y', tol=0.0)
        elif abs(pid) == 12:
            ex.close(em + had, 1.0, 'nue-cc-sum==1', tol=1e-12)
            ex.close(had, y, 'nue-cc-had==y', tol=0.0)
        elif not sec:
            ex.close(em, 0.0, 'mu/tau-cc-em==0', tol=0.0)
            ex.close(had, y, 'mu/tau-cc-had==y', tol=0.0)
        else:
            # either the primary pair (0,y) or a secondary pair bounded by the lepton energy
            primary = P.sb_and(P.cmp(em, 0.0, '=='), P.cmp(had, y, '==')) if ex.sym else \
                (em == 0.0 and had == y)
            bounded = P.cmp(em + had, 1.0 - y + 1e-9, '<=') if ex.sym else (em + had <= 1.0 - y + 1e-9)
            bigger = P.cmp(em + had, y - 1e-12, '>=') if ex.sym else (em + had >= y - 1e-12)
            ex.true(P.sb_or(primary, P.sb_and(bounded, bigger)) if ex.sym else
                    (primary or (bounded and bigger)), 'secondary-pair-bounded-by-lepton-energy')


def h_tree(ex):
    """event trees of every shape (<= 4 add_children calls, 1..3 roots): iteration yields
    every particle once, len agrees, parent/children/level queries are mutually consistent."""
    from pyrex.particle import Particle, Event

    class SI:
        def __init__(self, particle, kind=None):
            pass
    n_roots = ex.case['roots']
    calls = ex.case['calls']
    mk = lambda: Particle(12, (0.0, 0.0, -1.0), (0.0, 0.0, 1.0), 1e9, interaction_model=SI)
    roots = [mk() for _ in range(n_roots)]
    ev = Event(roots if n_roots > 1 or ex.case.get('as_list') else roots[0])
    allp = list(roots)
    parent_of = {id(r): None for r in roots}
    kids = {id(r): [] for r in roots}
    level = {id(r): 0 for r in roots}
    for c in range(calls):
        pi = ex.choice(len(allp))
        nk = ex.choice(3)
        par = allp[pi]
        new = [mk() for _ in range(nk)]
        if nk == 1 and ex.choice(2):
            ev.add_children(par, new[0])
        else:
            ev.add_children(par, new)
        for k in new:
            allp.append(k)
            parent_of[id(k)] = par
            kids[id(k)] = []
            kids[id(par)].append(k)
            level[id(k)] = level[id(par)] + 1
    got = list(ev)
    ex.same([id(x) for x in got], [id(x) for x in allp], 'iteration==each-particle-once-in-order')
    ex.same(len(ev), len(allp) if ex.twin != 'short' else len(allp) - 1, 'len==number-of-particles')
    for p in allp:
        ch = ev.get_children(p)
        ex.same([id(x) for x in ch], [id(x) for x in kids[id(p)]], 'children-as-added')
        par = ev.get_parent(p)
        ex.same(None if par is None else id(par),
                None if parent_of[id(p)] is None else id(parent_of[id(p)]), 'parent-consistent')
        for c_ in ch:
            ex.same(ev.get_parent(c_) is p, True, 'parent(child)-is-parent')
    maxl = max(level.values())
    seen = []
    for l in range(maxl + 2):
        lv = ev.get_from_level(l)
        ex.same(sorted(id(x) for x in lv), sorted(id(x) for x in allp if level[id(x)] == l),
                'level-set')
        seen.extend(id(x) for x in lv)
    ex.same(sorted(seen), sorted(id(x) for x in allp), 'levels-partition-the-tree')
    ex.raises(lambda: ev.add_children(mk(), []), (ValueError,), 'foreign-parent-refused')


PIDS = (12, -12, 14, -14, 16, -16)
GRID = [3.0 + 0.5 * i for i in range(19)]
HARNESSES = [
    Harness('ctw-sigma', h_ctw_sigma, _mods, encodes=_enc, twins=('c3',),
            cases={'quick': [{'pid': 12}, {'pid': -14}], 'thorough': [{'pid': p} for p in PIDS]}),
    Harness('gqrs-sigma', h_gqrs_sigma, _mods, encodes=_enc, twins=('decreasing',),
            cases={'quick': [{'pid': 12}, {'pid': -16}], 'thorough': [{'pid': p} for p in PIDS]}),
    Harness('interaction-choice', h_choice, _mods, encodes=_enc, twins=('flipped',),
            cases={'quick': [{'model': 'gqrs'}, {'model': 'ctw'}],
                   'thorough': [{'model': m, 'pid': p} for m in ('gqrs', 'ctw') for p in (12, -14)]}),
    Harness('gqrs-inelasticity', h_gqrs_y, _mods, encodes=_enc, twins=('half',)),
    Harness('ctw-inelasticity', h_ctw_y, _mods, encodes=_enc, twins=('narrow',),
            cases={'quick': [{'eps': 9.0, 'pid': 12, 'kind': 'cc', '_twins': 1}] +
                   [{'eps': e, 'pid': p, 'kind': k} for e in (3.0, 6.5, 12.0)
                    for (p, k) in ((12, 'cc'), (-12, 'cc'), (14, 'nc'))],
                   'thorough': [{'eps': 9.0, 'pid': 12, 'kind': 'cc', '_twins': 1}] +
                   [{'eps': e, 'pid': p, 'kind': k} for e in GRID
                    for (p, k) in ((12, 'cc'), (-12, 'cc'), (14, 'nc'), (-16, 'nc'))]},
            budget={'quick': {'query_timeout_ms': 30000}}),
    Harness('shower-fractions', h_fractions, _mods, encodes=_enc, twins=('half',),
            cases={'quick': [{'pid': 12, 'kind': 'cc', 'secondaries': True, '_twins': 1}] +
                   [{'pid': p, 'kind': k, 'secondaries': s} for p in (12, -14, 16)
                    for k in ('cc', 'nc') for s in (False,)] +
                   [{'pid': p, 'kind': k, 'secondaries': True, 'poisson': po}
                    for p in (12, -14) for k in ('cc', 'nc') for po in ((0, 0, 0), (1, 0, 1))] +
                   [{'pid': 16, 'kind': k, 'secondaries': True, 'poisson': po}
                    for k in ('cc', 'nc') for po in ((0, 0, 0), (0, 1, 0))],
                   'thorough': [{'pid': 12, 'kind': 'cc', 'secondaries': True, '_twins': 1}] +
                   [{'pid': p, 'kind': k, 'secondaries': False, 'model': m} for p in PIDS
                    for k in ('cc', 'nc') for m in ('ctw', 'gqrs')] +
                   [{'pid': p, 'kind': 'cc', 'secondaries': True, 'model': m, 'poisson': po}
                    for p in (14, -14, 16, -16) for m in ('ctw', 'gqrs')
                    for po in ((0, 0, 0), (1, 0, 0), (0, 1, 0), (0, 0, 1))] +
                   # two secondaries at once / 1e21 eV: the integer concretisation of the
                   # table look-ups does not finish within the budget for most particle types
                   [{'pid': p, 'kind': k, 'secondaries': True, 'poisson': (1, 0, 1)}
                    for p in (12, -14) for k in ('cc', 'nc')]},
            budget={'quick': {'max_paths': 3000, 'wall_s': 300},
                    'thorough': {'max_paths': 20000, 'wall_s': 1200}}),
    Harness('event-tree', h_tree, _mods, encodes=_enc, twins=('short',),
            cases={'quick': [{'roots': 1, 'calls': 2, '_twins': 1}, {'roots': 1, 'calls': 3},
                             {'roots': 2, 'calls': 2}, {'roots': 3, 'calls': 1},
                             {'roots': 1, 'calls': 1, 'as_list': True}],
                   'thorough': [{'roots': 1, 'calls': 2, '_twins': 1}] +
                   [{'roots': r, 'calls': c} for r in (1, 2, 3) for c in (1, 2, 3, 4)
                    if not (r >= 2 and c == 4)]},      # > 400000 paths
            budget={'quick': {'max_paths': 20000, 'wall_s': 300},
                    'thorough': {'max_paths': 400000, 'wall_s': 2400}}),
]

BOUNDS = {
    'quick': {'energy': 'log10(E) in [3,12] symbolic (cross sections, type choice); a grid of 3 '
              '(quick) / 19 (thorough) energies for the CTW inelasticity with both variates '
              'symbolic', 'types': 'nu_e, anti-nu_mu (quick) / all six', 'secondaries': 'Poisson '
              'counts 0..1 each (fork), table look-ups replaced by any value of their range '
              '[0,1], neutrino energy 3e19 (and 1e21) GeV, inelasticity in [0,0.6]',
              'trees': '1..3 roots, <= 3 add_children calls, 0..2 children each'},
    'thorough': {'trees': '<= 4 calls'},
}
OUTSIDE = ["more than one pass of the energy-conservation retry loop (each pass is an "
           "independent redraw through the same code)", "agreement of the sampled distributions with the publication beyond the inverse-CDF "
           "formula", "contents of the secondary-interaction tables",
           "the energy-conservation retry loop beyond the iterations the forks reach"]
ASSUMPTIONS = ["exp/log axioms (monotone, inverse, concrete-point enclosures with 1e-9 "
               "continuity slack)", "the harness's transcription of the CTW/GQRS constants"]
