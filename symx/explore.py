"""Harness-facing API.  The *same* harness function runs in two modes:

* ``SymEx``  - inputs are solver variables, pyrex sees shimmed numpy, every claim becomes
  an SMT query ``path-condition AND axioms AND NOT claim``;
* ``ConEx``  - inputs are the floats of a solver model, pyrex sees the real numpy/scipy,
  every claim is evaluated in float with a tolerance (replay / translator validation).
"""
import hashlib
import json
import math
import os
import time
import traceback
from fractions import Fraction as Fr

import numpy as np
import z3

from . import poly as P
from . import arr as A
from . import ctx as C
from . import shims as S
from .poly import SymReal, SymBool, SymComplex, SymError


class HarnessBug(Exception):
    pass


def _flat(x):
    if isinstance(x, A._PartView):
        x = x._get()
    if isinstance(x, np.ndarray):
        return list(x.ravel())
    if isinstance(x, (list, tuple)):
        out = []
        for i in x:
            out.extend(_flat(i))
        return out
    return [x]


def _shape(x):
    if isinstance(x, A._PartView):
        x = x._get()
    if isinstance(x, np.ndarray):
        return x.shape
    if isinstance(x, (list, tuple)):
        return np.shape(np.empty(0)) if len(x) == 0 else (len(x),) + _shape(x[0])
    return ()


class Claim:
    __slots__ = ('label', 'verdict', 'detail', 'model', 'choices', 'alt')

    def __init__(self, label, verdict, detail=None, model=None):
        self.label = label
        self.verdict = verdict      # held | cand | inconclusive
        self.detail = detail
        self.model = model
        self.alt = []               # further candidate models, tried if `model` does not replay


class SymEx:
    sym = True

    def __init__(self, c, case, twin=None):
        self.c = c
        self.case = case or {}
        self.twin = twin
        self.claims = []
        self.reached = []
        self.choices = []
        self.covered = {}

    # ---- inputs
    def real(self, name, lo=None, hi=None, lo_strict=False, hi_strict=False):
        return P.var(name, lo, hi, lo_strict, hi_strict)

    def reals(self, prefix, n, lo=None, hi=None):
        return [self.real("%s%d" % (prefix, i), lo, hi) for i in range(n)]

    def boolean(self, name):
        c = self.c
        v = z3.Bool(name)
        c.inputs[name] = ('bool', v, None, None)
        return SymBool(v)

    def integer(self, name, lo=None, hi=None):
        from .symint import ivar
        return ivar(name, lo, hi)

    def choice(self, k, label=None):
        v = self.c.choose(k, label)
        self.choices.append(v)
        return v

    def array(self, xs):
        return A.to_obj(list(xs)) if not isinstance(xs, np.ndarray) else A.to_obj(xs)

    def const_array(self, xs):
        """A concrete float array in the representation pyrex sees in this mode."""
        return np.asarray(xs, dtype=float).astype(object).view(A.SymArray)

    def assume(self, cond):
        self.c.assume(cond)

    def assume_eq(self, a, b):
        self.c.assume(P.cmp(a, b, '=='))

    def under(self, cond):
        """Context manager: temporarily add a hypothesis; yields whether it is feasible."""
        import contextlib
        c = self.c

        @contextlib.contextmanager
        def cm():
            if isinstance(cond, (bool, np.bool_)):
                yield bool(cond)
                return
            e = P.b_z3(cond)
            c.solver.push()
            c.light.push()
            c.solver.add(e)
            c.light.add(e)
            try:
                r, _ = c._check()
                yield r == 'sat'
            finally:
                c.solver.pop()
                c.light.pop()
        return cm()

    def note(self, key, val=1):
        self.covered[key] = self.covered.get(key, 0) + val

    # ---- claims
    def _prove(self, claim, label, strong=None, detail=None):
        """claim: z3 Bool (or python bool).  strong: optional stronger negation used to
        obtain a counterexample with a margin (better replayability)."""
        c = self.c
        if isinstance(claim, (bool, np.bool_)):
            if claim:
                # still a (trivial) obligation, decided syntactically by normalisation
                c.ex.stats.queries['unsat'] += 1
                self.claims.append(Claim(label, 'held', 'syntactic'))
                return True
            r, m = c._check()
            if r == 'sat':
                self.claims.append(Claim(label, 'cand', detail, self._model(m)))
            elif r == 'unsat':
                self.claims.append(Claim(label, 'held', 'vacuous-path'))
            else:
                self.claims.append(Claim(label, 'inconclusive', 'unknown'))
            return False
        neg = z3.Not(claim)
        if c.n_heavy:
            # stage 1: path condition + linear axioms only (unsat there is unsat overall)
            r, m = c._check(neg, light=True)
            if r == 'unsat':
                self.claims.append(Claim(label, 'held', 'light'))
                return True
        r, m = c._check(neg, portfolio=True)
        if r == 'unsat':
            self.claims.append(Claim(label, 'held'))
            return True
        if r == 'unknown':
            # counterexample search by partial instantiation: fix a pseudo-random subset of
            # the inputs to concrete values of their domains (turning the nonlinear query
            # into a mostly linear one).  Only ever used to *find* a model; unknown stays
            # inconclusive, and every model is replayed anyway.
            m = self._guided(neg if strong is None else strong) or \
                (self._guided(neg) if strong is not None else None)
            if m is None:
                # last resort: any input of this path (model of the path condition alone);
                # if the real code fails the claim there the replay will say so, otherwise
                # the obligation stays inconclusive
                try:
                    r3, m3 = c._check()
                except C.BudgetExceeded:
                    r3, m3 = 'unknown', None
                if r3 == 'sat':
                    cl = Claim(label, 'cand', 'solver unknown; path witness tried',
                               self._model(m3))
                    self.claims.append(cl)
                    return False
                if c.last_model is not None:
                    # an input found earlier on this path (it satisfies the path condition
                    # as it stood then); the replay decides, a pass leaves it inconclusive
                    try:
                        cl = Claim(label, 'cand', 'solver unknown; earlier path model tried',
                                   self._model(c.last_model))
                        self.claims.append(cl)
                        return False
                    except Exception:
                        pass
                self.claims.append(Claim(label, 'inconclusive', 'solver unknown'))
                return False
            self.claims.append(Claim(label, 'cand', detail, self._model(m)))
            return False
        # the model may exploit the slack of the exp/log axiomatisation: refine at the
        # model's arguments and ask again (each round adds true facts only)
        res, m = self._refined(neg, m)
        if res == 'unsat':
            self.claims.append(Claim(label, 'held', 'after refinement'))
            return True
        alts = []
        if strong is not None:
            try:
                r2, m2 = c._check(strong)
                if r2 == 'sat':
                    res2, m2 = self._refined(strong, m2)
                    if res2 == 'sat':
                        alts.append(self._model(m))
                        m, res = m2, 'sat'
                    elif res2 == 'unknown':
                        alts.append(self._model(m2))
            except C.BudgetExceeded:
                pass
        cl = Claim(label, 'cand', detail, self._model(m))
        cl.alt.extend(alts)
        if res != 'sat':
            # the solver's model may still sit in the slack of the exp/log axioms: also try
            # an arbitrary input of this path on the real code (can only confirm a failure)
            try:
                r3, m3 = c._check()
                if r3 == 'sat':
                    cl.alt.append(self._model(m3))
            except C.BudgetExceeded:
                pass
        self.claims.append(cl)
        return False

    def _refined(self, query, m):
        """Incremental linearisation around the models of `query`: ('sat', faithful model),
        ('unsat', None) or ('unknown', last model)."""
        c = self.c
        old_to = c.ex.query_timeout_ms
        try:
            return self._refined_(query, m)
        finally:
            c.solver.set('timeout', old_to)

    def _refined_(self, query, m):
        c = self.c
        for rnd in range(4):
            try:
                if not c.refine(m):
                    return 'sat', m
                # refinement re-checks are cheap or not worth it: short timeout
                c.solver.set('timeout', min(c.ex.query_timeout_ms, 8000))
                if rnd == 0:
                    # same inputs, transcendental atoms now pinned near their true values
                    r, m2 = c._check(query, *c.pins(m))
                    if r == 'sat':
                        m = m2
                        continue
                r, m2 = c._check(query)
            except C.BudgetExceeded:
                break
            if r == 'unsat':
                return 'unsat', None
            if r != 'sat':
                break
            m = m2
        return 'unknown', m

    def _guided(self, neg, tries=6):
        return self.c.guided(neg, tries=tries)

    def _model(self, m):
        out = {}
        for name, (kind, v, lo, hi) in self.c.inputs.items():
            val = m.eval(v, model_completion=True)
            if kind == 'real':
                out[name] = _z3_to_float(val)
            elif kind == 'int':
                out[name] = val.as_long()
            else:
                out[name] = bool(z3.is_true(val))
        for name, (cv, sv) in self.c.angle_inputs.items():
            if name in out:
                cval = _z3_to_float(m.eval(cv, model_completion=True))
                sval = _z3_to_float(m.eval(sv, model_completion=True))
                if abs(cval) + abs(sval) > 1e-9:
                    ang = math.atan2(sval, cval)
                    kind, v, lo, hi = self.c.inputs[name]
                    if lo is not None and lo >= 0 and ang < 0:
                        ang += 2 * math.pi
                    # only a value inside the declared domain may replace the model's
                    if (lo is None or ang >= float(lo) - 1e-12) and \
                            (hi is None or ang <= float(hi) + 1e-12):
                        out[name] = ang
        uf = {}
        for name, tab in getattr(self.c, 'ufuns', {}).items():
            uf[name] = [(_z3_to_float(m.eval(a, model_completion=True)),
                         _z3_to_float(m.eval(v, model_completion=True))) for a, v in tab]
        return {'inputs': out, 'choices': list(self.choices), 'uf': uf}

    def true(self, cond, label):
        conds = _flat(cond)
        es = []
        for x in conds:
            if isinstance(x, (bool, np.bool_)):
                if not x:
                    return self._prove(False, label, detail='constant False')
                continue
            es.append(P.b_z3(x))
        if not es:
            return self._prove(True, label)
        return self._prove(z3.And(es) if len(es) > 1 else es[0], label)

    def close(self, a, b, label, tol=1e-9, rtol=0.0):
        if _shape(a) != _shape(b):
            fa, fb = _flat(a), _flat(b)
            if len(fa) != len(fb) and not (len(fb) == 1 or len(fa) == 1):
                return self._prove(False, label, detail='shape %r vs %r' % (_shape(a), _shape(b)))
            if len(fb) == 1:
                fb = fb * len(fa)
            if len(fa) == 1:
                fa = fa * len(fb)
        else:
            fa, fb = _flat(a), _flat(b)
        oks = []
        strongs = []
        for x, y in zip(fa, fb):
            for dx in self._diffs(x, y):
                if not isinstance(dx, SymReal):
                    bound = tol
                    if abs(dx) > bound + rtol * 1e300 and rtol == 0.0:
                        return self._prove(False, label, detail='concrete diff %g' % dx)
                    if rtol == 0.0:
                        continue
                t = tol
                if rtol:
                    t = P.add(tol, P.mul(rtol, P.sabs(P.real_of(y) if not isinstance(
                        y, (SymComplex, complex)) else P.cabs(y))))
                dz = P.lift(dx).z3()
                tz = P.lift(t).z3()
                oks.append(z3.And(dz <= tz, -dz <= tz))
                big = P.lift(P.add(P.mul(t, 100.0), 1e-7)).z3()
                strongs.append(z3.Or(dz > big, -dz > big))
        if not oks:
            return self._prove(True, label)
        return self._prove(z3.And(oks) if len(oks) > 1 else oks[0], label,
                           strong=z3.Or(strongs) if len(strongs) > 1 else strongs[0])

    def _diffs(self, x, y):
        if isinstance(x, (SymComplex, complex, np.complexfloating)) or \
                isinstance(y, (SymComplex, complex, np.complexfloating)):
            d = P.clift(P.sub(x, y))
            return [d.re, d.im]
        if isinstance(x, (SymBool, bool, np.bool_)) or isinstance(y, (SymBool, bool, np.bool_)):
            raise HarnessBug("close() on booleans")
        return [P.sub(x, y)]

    def equal(self, a, b, label, scale=None):
        """Exact identity a == b between rational expressions: the difference is multiplied
        through by the denominators of all its inverse atoms (each asserted non-zero by the
        atom's own axiom), leaving a polynomial identity for the solver."""
        d = P.sub(a, b)
        if not isinstance(d, SymReal):
            return self._prove(abs(d) <= 1e-12, label, detail='concrete %r' % d)
        num, dens = P.clear_inverses(SymReal(d.p))
        if not num.p:
            self.c.ex.stats.queries['unsat'] += 1
            self.claims.append(Claim(label, 'held', 'identity after clearing denominators'))
            return True
        nz = num.z3()
        # polynomial identities are nlsat's home ground: one-shot solver first
        r, m = self.c.check_fresh(nz != 0)
        if r == 'unsat':
            self.claims.append(Claim(label, 'held', 'one-shot'))
            return True
        if r == 'sat':
            self.claims.append(Claim(label, 'cand', 'identity fails', self._model(m)))
            return False
        return self._prove(nz == 0, label)

    def le(self, a, b, label, tol=1e-9):
        """a <= b + tol  elementwise."""
        fa, fb = _flat(a), _flat(b)
        if len(fb) == 1:
            fb = fb * len(fa)
        if len(fa) == 1:
            fa = fa * len(fb)
        oks, strongs = [], []
        for x, y in zip(fa, fb):
            d = P.sub(x, y)
            if not isinstance(d, SymReal):
                if d > tol:
                    return self._prove(False, label, detail='concrete %g > %g' % (x, y))
                continue
            oks.append(d.z3() <= P._rv(Fr(tol)))
            strongs.append(d.z3() > P._rv(Fr(tol * 100 + 1e-7)))
        if not oks:
            return self._prove(True, label)
        return self._prove(z3.And(oks) if len(oks) > 1 else oks[0], label,
                           strong=z3.Or(strongs) if len(strongs) > 1 else strongs[0])

    def lt(self, a, b, label):
        """a < b elementwise (strict in real arithmetic; counterexamples are sought with a
        margin first so that they survive float rounding)."""
        fa, fb = _flat(a), _flat(b)
        if len(fb) == 1:
            fb = fb * len(fa)
        if len(fa) == 1:
            fa = fa * len(fb)
        oks, strongs = [], []
        for x, y in zip(fa, fb):
            d = P.sub(x, y)
            if not isinstance(d, SymReal):
                if not d < 0:
                    return self._prove(False, label, detail='concrete %r >= %r' % (x, y))
                continue
            oks.append(d.z3() < 0)
            strongs.append(d.z3() >= P._rv(Fr(1, 10 ** 6)))
        if not oks:
            return self._prove(True, label)
        return self._prove(z3.And(oks) if len(oks) > 1 else oks[0], label,
                           strong=z3.Or(strongs) if len(strongs) > 1 else strongs[0])

    def fail(self, label, detail=None):
        return self._prove(False, label, detail=detail)

    def watch_divisions(self, on=True):
        """From now on every division by a symbolic denominator is a side obligation
        'denominator != 0' (checked when the division happens, before its result is used)."""
        self.c.check_div = on

    def finite(self, x, label):
        """All values finite: in symbolic mode the pending division-by-zero candidates
        collected since the last call become counterexample candidates for this label."""
        cands = self.c.div_zero
        self.c.div_zero = []
        if not cands:
            self.c.ex.stats.queries['unsat'] += 0
            self.claims.append(Claim(label, 'held', 'no division by a possibly-zero term'))
            return True
        for m in cands[:3]:
            self.claims.append(Claim(label, 'cand', 'denominator can be zero', self._model(m)))
        return False

    def same(self, a, b, label):
        """Python-level equality of concrete things (ids, types, ints) on this path."""
        return self._prove(bool(a == b), label, detail='%r != %r' % (a, b))

    def raises(self, fn, excs, label):
        try:
            fn()
        except excs:
            return self._prove(True, label)
        return self._prove(False, label, detail='no exception')

    def exists(self, cond, label):
        """Reachability-style obligation: some input on this path satisfies cond."""
        c = self.c
        if isinstance(cond, (bool, np.bool_)):
            ok = bool(cond)
        else:
            r, m = c._check(P.b_z3(cond))
            ok = (r == 'sat')
            if not ok and r == 'unknown':
                ok = c.guided(P.b_z3(cond), tries=6) is not None
        self.claims.append(Claim(label, 'held' if ok else 'inconclusive',
                                 None if ok else 'no witness'))
        return ok


def _z3_to_float(val):
    if z3.is_rational_value(val):
        return float(Fr(val.numerator_as_long(), val.denominator_as_long()))
    if z3.is_algebraic_value(val):
        a = val.approx(30)
        return float(Fr(a.numerator_as_long(), a.denominator_as_long()))
    try:
        return float(val.as_decimal(30).rstrip('?'))
    except Exception:
        return 0.0


class ConEx:
    """Concrete replay of a harness on the real, unshimmed code."""
    sym = False

    def __init__(self, model, case, twin=None, rtol=1e-7, atol_scale=10.0):
        self.inputs = dict(model.get('inputs', {}))
        self._choices = list(model.get('choices', []))
        self.uf_tables = {k: [tuple(x) for x in v] for k, v in model.get('uf', {}).items()}
        self._ci = 0
        self.case = case or {}
        self.twin = twin
        self.failed = []          # (label, detail)
        self.passed = []
        self.covered = {}
        self.rtol = rtol
        self.atol_scale = atol_scale

    def real(self, name, lo=None, hi=None, lo_strict=False, hi_strict=False):
        if name not in self.inputs:
            # input not mentioned by the model: any value of the domain will do
            v = 0.0
            if lo is not None and hi is not None:
                v = (lo + hi) / 2.0
            elif lo is not None:
                v = lo + 1.0
            elif hi is not None:
                v = hi - 1.0
            self.inputs[name] = v
        return float(self.inputs[name])

    def reals(self, prefix, n, lo=None, hi=None):
        return [self.real("%s%d" % (prefix, i), lo, hi) for i in range(n)]

    def boolean(self, name):
        return bool(self.inputs.get(name, False))

    def integer(self, name, lo=None, hi=None):
        if name not in self.inputs:
            self.inputs[name] = lo if lo is not None else 0
        return int(self.inputs[name])

    def choice(self, k, label=None):
        if self._ci < len(self._choices):
            v = self._choices[self._ci]
        else:
            v = 0
        self._ci += 1
        return v

    def array(self, xs):
        return np.array([float(x) for x in xs], dtype=float) if not isinstance(xs, np.ndarray) \
            else np.array(xs, dtype=float)

    def const_array(self, xs):
        return np.asarray(xs, dtype=float)

    def assume(self, cond):
        if not bool(np.all(cond)):
            raise AssumptionViolated()

    def assume_eq(self, a, b):
        # model values are rounded to floats: an equality holds up to that rounding
        if not abs(float(a) - float(b)) <= 1e-9 * (1.0 + abs(float(b))):
            raise AssumptionViolated()

    def under(self, cond):
        import contextlib

        @contextlib.contextmanager
        def cm():
            yield bool(np.all(cond))
        return cm()

    def note(self, key, val=1):
        self.covered[key] = self.covered.get(key, 0) + val

    def _rec(self, ok, label, detail=None):
        (self.passed if ok else self.failed).append((label, detail))
        return ok

    def true(self, cond, label):
        return self._rec(bool(np.all(cond)), label, None)

    def close(self, a, b, label, tol=1e-9, rtol=0.0):
        try:
            a_ = np.asarray(a, dtype=complex)
            b_ = np.asarray(b, dtype=complex)
        except (TypeError, ValueError) as e:
            return self._rec(False, label, 'not numeric: %s' % e)
        if a_.shape != b_.shape:
            try:
                a_, b_ = np.broadcast_arrays(a_, b_)
            except ValueError:
                return self._rec(False, label, 'shape %r vs %r' % (a_.shape, b_.shape))
            if a_.size != max(np.size(a), np.size(b)) or (np.size(a) != 1 and np.size(b) != 1
                                                           and np.shape(a) != np.shape(b)):
                return self._rec(False, label, 'shape %r vs %r' % (np.shape(a), np.shape(b)))
        d = np.abs(a_ - b_)
        bound = tol * self.atol_scale + (rtol + self.rtol) * np.abs(b_)
        bad = ~(d <= bound)
        if np.any(bad):
            i = int(np.argmax(bad.ravel()))
            return self._rec(False, label, 'got %r want %r (|d|=%g)' % (
                a_.ravel()[i], b_.ravel()[i], d.ravel()[i]))
        return self._rec(True, label)

    def equal(self, a, b, label, scale=None):
        return self.close(a, b, label, tol=1e-9 if scale is None else 1e-9 * scale, rtol=1e-6)

    def le(self, a, b, label, tol=1e-9):
        a_ = np.asarray(a, dtype=float)
        b_ = np.asarray(b, dtype=float)
        ok = bool(np.all(a_ <= b_ + tol * self.atol_scale + self.rtol * np.abs(b_)))
        return self._rec(ok, label, None if ok else 'max excess %g' % float(np.max(a_ - b_)))

    def lt(self, a, b, label):
        a_ = np.asarray(a, dtype=float)
        b_ = np.asarray(b, dtype=float)
        # strict in real arithmetic; in float a tie within rounding is not a refutation
        ok = bool(np.all(a_ < b_ + 1e-12 * (1.0 + np.abs(b_))))
        return self._rec(ok, label)

    def fail(self, label, detail=None):
        return self._rec(False, label, detail)

    def watch_divisions(self, on=True):
        pass

    def finite(self, x, label):
        try:
            ok = bool(np.all(np.isfinite(np.asarray(x, dtype=complex))))
        except (TypeError, ValueError):
            ok = False
        return self._rec(ok, label, None if ok else 'non-finite value')

    def same(self, a, b, label):
        return self._rec(bool(a == b), label, '%r != %r' % (a, b))

    def raises(self, fn, excs, label):
        try:
            fn()
        except excs:
            return self._rec(True, label)
        return self._rec(False, label, 'no exception')

    def exists(self, cond, label):
        return True


class AssumptionViolated(Exception):
    pass


# ---------------------------------------------------------------------------------

class Harness:
    def __init__(self, name, fn, modules=(), cases=None, twins=(), required=True,
                 encodes=(), doc='', budget=None, extra_swaps=None, np_shim=None,
                 rtol=1e-7):
        self.name = name
        self.fn = fn
        self.modules = modules          # callable returning module list (lazy import)
        self.cases = cases or {'quick': [{}], 'thorough': [{}]}
        self.twins = tuple(twins)
        self.required = required
        self.encodes = encodes          # callable returning list of functions
        self.doc = doc
        self.budget = budget or {}
        self.extra_swaps = extra_swaps  # callable(ex) -> [(module, name, value)]
        self.np_shim = np_shim
        self.rtol = rtol


def concrete_run(h, model, case, twin):
    """Replay: real numpy, real pyrex.  Returns ConEx (with .failed / .error)."""
    ex = ConEx(model, case, twin, rtol=h.rtol)
    ex.error = None
    old = C._CUR[0]
    C._CUR[0] = None
    try:
        import warnings
        import logging
        logging.disable(logging.CRITICAL)
        with warnings.catch_warnings(), np.errstate(all='ignore'):
            warnings.simplefilter('ignore')
            h.fn(ex)
    except AssumptionViolated:
        ex.error = 'assumption'
    except Exception as e:
        ex.error = '%s: %s' % (type(e).__name__, e)
        ex.error_tb = traceback.format_exc(limit=6)
    finally:
        C._CUR[0] = old
    return ex


def run_path(c, h, case, twin):
    """One symbolic execution of the harness along the path fixed by c's prefix."""
    try:
        return _run_path(c, h, case, twin)
    except C.BudgetExceeded as e:
        # e.g. an integer with too many feasible values: keep the path prefix's witness so
        # that the concrete fallback below can still look at this path
        try:
            old = c.ex.deadline
            c.ex.deadline = time.time() + 30
            c.solver.set('timeout', 5000)
            r, m = c._check()
            c.ex.deadline = old
        except BaseException:
            r, m = 'unknown', None
        if r != 'sat' and c.last_model is not None:
            # any earlier model of (a prefix of) this path: the concrete replay decides
            r, m = 'sat', c.last_model
        if r != 'sat':
            raise e
        ex = SymEx(c, case, twin)
        ex.choices = [d[1] for d in c.trace if isinstance(d, tuple) and d[0] == 'ch']
        return {'claims': [], 'error': ('engine', 'budget: %s' % e, ''), 'witness': ex._model(m),
                'notes': list(c.notes), 'covered': {}, 'choices': list(ex.choices),
                'n_inputs': len(c.inputs), 'n_atoms': len(c.atoms), 'stop': str(e)}


def _run_path(c, h, case, twin):
    ex = SymEx(c, case, twin)
    mods = h.modules() if callable(h.modules) else list(h.modules)
    extra = h.extra_swaps(ex) if h.extra_swaps else None
    err = None
    with S.installed(mods, extra=extra, np_shim=h.np_shim() if h.np_shim else None):
        try:
            h.fn(ex)
        except (C.Infeasible, C.BudgetExceeded):
            raise
        except SymError as e:
            err = ('engine', '%s' % e, traceback.format_exc(limit=8))
        except HarnessBug as e:
            err = ('harness', '%s' % e, traceback.format_exc(limit=8))
        except RecursionError as e:
            err = ('engine', 'recursion', '')
        except Exception as e:
            # the code under test raised on this path: candidate violation, to be replayed
            r, m = c._check()
            if r == 'sat':
                ex.claims.append(Claim('no-exception', 'cand',
                                       '%s: %s' % (type(e).__name__, e), ex._model(m)))
                err = ('raised', '%s: %s' % (type(e).__name__, e),
                       traceback.format_exc(limit=8))
            else:
                err = ('engine', 'exception on a path of unknown feasibility: %s' % e,
                       traceback.format_exc(limit=8))
        # witness for this path (reachability + translator validation)
        witness = None
        if err is None or err[0] == 'engine':
            try:
                c.solver.set('timeout', min(c.ex.query_timeout_ms, 5000))
                r, m = c._check()
                c.solver.set('timeout', c.ex.query_timeout_ms)
                if r == 'unknown':
                    m = c.guided(tries=6)
                    r = 'sat' if m is not None else 'unknown'
            except C.BudgetExceeded:
                r = 'unknown'
            if r == 'sat':
                witness = ex._model(m)
    return {'claims': ex.claims, 'error': err, 'witness': witness,
            'notes': list(c.notes), 'covered': ex.covered, 'choices': list(ex.choices),
            'n_inputs': len(c.inputs), 'n_atoms': len(c.atoms)}


def run_case(h, case, twin, tier, seed, budget):
    """Explore all paths of one harness case.  Returns a picklable summary."""
    t0 = time.time()
    bud = dict(max_paths=300, wall_s=120.0, query_timeout_ms=30000)
    bud.update(h.budget.get(tier, {}) if isinstance(h.budget.get(tier), dict) else {})
    bud.update(budget or {})
    exp = C.Explorer(seed=seed, **bud)
    paths = exp.run(lambda c: run_path(c, h, case, twin))
    out = {
        'harness': h.name, 'case': case, 'twin': twin, 'paths': len(paths),
        'exhausted': exp.exhausted, 'budget_note': exp.budget_note,
        'queries': dict(exp.stats.queries), 'solver_s': exp.stats.solver_s,
        'max_atoms': exp.stats.max_atoms, 'sample_smt': exp.stats.sample_smt,
        'held': 0, 'violations': [], 'inconclusive': [], 'engine_errors': [],
        'witness_ok': 0, 'witness_bad': [], 'labels': {}, 'covered': {},
        'sample_model': None, 'n_inputs': 0,
    }
    for (c, res) in paths:
        out['n_inputs'] = max(out['n_inputs'], res['n_inputs'])
        if res.get('stop'):
            out['exhausted'] = False
            out['budget_note'] = res['stop']
        if res['error'] is not None and res['error'][0] == 'engine' and res['witness'] is not None:
            # concolic fallback: the engine could not continue on this path; replay the
            # solver's witness for the path prefix on the real code.  A failing claim there
            # is a reproduced violation; a clean replay leaves the engine error standing.
            rep = concrete_run(h, res['witness'], case, twin)
            done = {cl.label for cl in res['claims']}
            for (l, d) in rep.failed:
                if l in done:
                    continue
                done.add(l)
                lab = out['labels'].setdefault(l, {'held': 0, 'violated': 0, 'inconclusive': 0})
                lab['violated'] += 1
                out['violations'].append({'label': l, 'model': res['witness'],
                                          'sym_detail': 'engine stopped (%s); path witness '
                                          'replayed concretely' % res['error'][1][:120],
                                          'replay_detail': d, 'case': case, 'twin': twin,
                                          'harness': h.name})
            if rep.error not in (None, 'assumption') and 'no-exception' not in done:
                lab = out['labels'].setdefault('no-exception', {'held': 0, 'violated': 0,
                                                                'inconclusive': 0})
                lab['violated'] += 1
                out['violations'].append({'label': 'no-exception', 'model': res['witness'],
                                          'sym_detail': res['error'][1][:200],
                                          'replay_detail': rep.error, 'case': case,
                                          'twin': twin, 'harness': h.name})
            res['witness'] = None
        for k, v in res['covered'].items():
            out['covered'][k] = out['covered'].get(k, 0) + v
        if res['error'] is not None and res['error'][0] in ('engine', 'harness'):
            out['engine_errors'].append({'kind': res['error'][0], 'msg': res['error'][1],
                                         'tb': res['error'][2][-1500:]})
        for cl in res['claims']:
            lab = out['labels'].setdefault(cl.label, {'held': 0, 'violated': 0,
                                                      'inconclusive': 0})
            if cl.verdict == 'held':
                out['held'] += 1
                lab['held'] += 1
            elif cl.verdict == 'inconclusive':
                out['inconclusive'].append({'label': cl.label, 'why': cl.detail})
                lab['inconclusive'] += 1
            else:
                # candidate counterexample: replay on the real code
                for cand_model in [cl.model] + list(getattr(cl, 'alt', None) or []):
                    rep = concrete_run(h, cand_model, case, twin)
                    failed_labels = [l for l, _ in rep.failed]
                    reproduced = False
                    detail = None
                    if cl.label == 'no-exception':
                        reproduced = rep.error is not None and rep.error != 'assumption'
                        detail = rep.error
                    elif cl.label in failed_labels:
                        reproduced = True
                        detail = [d for l, d in rep.failed if l == cl.label][0]
                    elif rep.error is not None and rep.error != 'assumption':
                        # the replay raised before reaching the claim: that is a failure of
                        # the real code on this input as well
                        reproduced = True
                        detail = 'replay raised ' + rep.error
                    if reproduced:
                        cl.model = cand_model
                        break
                if reproduced:
                    lab['violated'] += 1
                    out['violations'].append({'label': cl.label, 'model': cl.model,
                                              'sym_detail': cl.detail, 'replay_detail': detail,
                                              'case': case, 'twin': twin, 'harness': h.name})
                else:
                    lab['inconclusive'] += 1
                    out['inconclusive'].append({
                        'label': cl.label, 'why': 'counterexample did not reproduce in float',
                        'model': cl.model, 'sym_detail': cl.detail,
                        'replay_error': rep.error})
        if res['witness'] is not None:
            if out['sample_model'] is None:
                out['sample_model'] = res['witness']
            rep = concrete_run(h, res['witness'], case, twin)
            sym_held = {cl.label for cl in res['claims'] if cl.verdict == 'held'} - \
                {cl.label for cl in res['claims'] if cl.verdict != 'held'}
            bad = [(l, d) for l, d in rep.failed if l in sym_held]
            if rep.error is not None and rep.error != 'assumption':
                out['witness_bad'].append({'error': rep.error, 'model': res['witness'],
                                           'tb': getattr(rep, 'error_tb', '')[-1500:]})
            elif bad and twin is None:
                # the obligation is valid over the reals on this path (the solver said so),
                # yet the path's own witness fails it on the real, unshimmed code: what the
                # real-number encoding abstracts (dtype, IEEE rounding) decides it.  The
                # failure is concrete and reproduces by construction: reported as a
                # violation of the obligation, labelled as found by the witness replay.
                for l, d in bad[:3]:
                    out['labels'].setdefault(l, {'held': 0, 'violated': 0, 'inconclusive': 0})
                    out['labels'][l]['violated'] += 1
                    out['violations'].append({
                        'label': l, 'model': res['witness'],
                        'sym_detail': 'held over the reals on this path; fails on the real '
                                      'float code for the path witness (dtype/rounding)',
                        'replay_detail': d, 'case': case, 'twin': twin, 'harness': h.name})
            else:
                out['witness_ok'] += 1
    out['wall_s'] = time.time() - t0
    return out
