"""In-memory model of the part of h5py that pyrex.io uses (DESIGN.md 1.3).

Contract assumed (and listed in every claim that uses it): HDF5 stores what is written
where it is written; `resize` along an axis keeps existing rows; unwritten cells read as the
fill value.  Row counts (`shape[0]`) and row indices may be solver terms: a dataset is a
write log `[(index tuple, value)]`, reads by row range return a `Rows(dataset, lo, hi)`
object with Python/numpy slice semantics (clamping) expressed with If terms.
"""
import numpy as np

from . import poly as P
from . import arr as A
from .poly import SymReal, SymError


def _is_sym(x):
    return isinstance(x, SymReal)


class Attrs(dict):
    pass


class _Dim:
    label = ''


class _Dims:
    def __getitem__(self, i):
        return _Dim()


class Rows:
    """The rows [lo, hi) of a dataset (lo/hi may be symbolic); slicing follows numpy."""

    def __init__(self, ds, lo, hi):
        self.ds = ds
        self.lo = lo
        self.hi = hi

    def length(self):
        d = P.sub(self.hi, self.lo)
        return d

    def __getitem__(self, key):
        if isinstance(key, slice):
            if key.step not in (None, 1):
                raise SymError("stepped slice of a row range")
            n = self.length()
            a = 0 if key.start is None else key.start
            b = n if key.stop is None else key.stop
            # numpy clamps slice bounds into [0, n] (negative values are not produced by
            # the code under test; they would count from the end)
            a = _clamp(a, 0, n)
            b = _clamp(b, a, n)
            return Rows(self.ds, P.add(self.lo, a), P.add(self.lo, b))
        if isinstance(key, tuple):
            rows = self[key[0]]
            if isinstance(rows, Rows):
                return ColRows(rows, key[1:])
            return self.ds[(P.add(self.lo, key[0]),) + tuple(key[1:])]
        return self.ds[P.add(self.lo, key)]

    def materialize(self):
        lo, hi = self.lo, self.hi
        if _is_sym(lo) or _is_sym(hi):
            raise SymError("cannot materialise a symbolic row range")
        return self.ds._gather(range(int(lo), int(hi)))

    # numpy-ish surface used by the reader's decoding helpers (concrete ranges only)
    @property
    def ndim(self):
        return len(self.ds._shape)

    @property
    def shape(self):
        n = self.length()
        if _is_sym(n):
            raise SymError("shape of a symbolic row range")
        return (int(n),) + tuple(self.ds._shape[1:])

    def __len__(self):
        n = self.length()
        if _is_sym(n):
            raise SymError("len of a symbolic row range")
        return int(n)

    def __array__(self, dtype=None, copy=None):
        return np.asarray(self.materialize(), dtype=dtype)

    def __iter__(self):
        return iter(self.materialize())

    @property
    def size(self):
        n = self.length()
        for s in self.ds._shape[1:]:
            n = P.mul(n, s)
        return n

    def __repr__(self):
        return "Rows(%s,%r,%r)" % (self.ds.name, self.lo, self.hi)


class ColRows:
    def __init__(self, rows, rest):
        self.rows = rows
        self.rest = rest


def _clamp(v, lo, hi):
    if not (_is_sym(v) or _is_sym(lo) or _is_sym(hi)):
        return max(lo, min(v, hi))
    return P.smax(lo, P.smin(v, hi))


def _key_eq(k1, k2):
    """Symbolic equality of two index tuples (same length) -> bool / SymBool."""
    conds = []
    for a, b in zip(k1, k2):
        c = P.cmp(a, b, '==')
        if c is False:
            return False
        if c is not True:
            conds.append(c)
    if not conds:
        return True
    return P.sb_and(*conds)


class Dataset:
    def __init__(self, name, shape=(0,), dtype=None, maxshape=None, fill=None):
        self.name = name
        self._shape = list(shape)
        self.dtype = dtype
        self.maxshape = maxshape
        self.attrs = Attrs()
        self.dims = _Dims()
        self.log = []              # (index tuple, value), later entries win
        kind = None
        try:
            kind = np.dtype(dtype).kind if dtype is not None and not isinstance(dtype, _VLen) \
                else None
        except TypeError:
            kind = None
        self.fill = fill if fill is not None else (
            False if kind == 'b' else (0 if kind in ('i', 'u') else (0.0 if kind == 'f' else
                                                              ('' if isinstance(dtype, _VLen)
                                                               and dtype.base is str else 0.0))))
        self.resizes = []
        self.force_rows = False

    def _nd(self, a):
        """What h5py hands back for a read: a plain ndarray (object dtype here, so that
        solver terms survive); symbolic content is wrapped as SymArray."""
        a = np.asarray(a, dtype=object)
        if any(isinstance(x, (SymReal, P.SymBool)) for x in a.ravel()):
            return a.view(A.SymArray)
        if a.size and all(isinstance(x, (bool, np.bool_)) for x in a.ravel()):
            return a.astype(bool)
        return a

    # ---- shape
    @property
    def shape(self):
        return tuple(self._shape)

    @property
    def ndim(self):
        return len(self._shape)

    @property
    def size(self):
        n = 1
        for s in self._shape:
            n = P.mul(n, s) if (_is_sym(n) or _is_sym(s)) else n * s
        return n

    def __len__(self):
        n = self._shape[0]
        if _is_sym(n):
            return int(n)
        return int(n)

    def resize(self, size, axis=None):
        if axis is None:
            self._shape = list(size)
        else:
            self._shape[axis] = size
        self.resizes.append((axis, size))

    # ---- writes
    def __setitem__(self, key, value):
        if not isinstance(key, tuple):
            key = (key,)
        if any(isinstance(k, slice) for k in key):
            raise SymError("slice assignment into dataset model")
        self.log.append((tuple(key), value))

    # ---- reads
    def _lookup(self, key):
        """Value at a full or partial index tuple (latest matching write wins)."""
        res = None
        found_definite = False
        # walk from the newest write
        pend = []
        for (k, v) in reversed(self.log):
            if len(k) < len(key):
                continue
            e = _key_eq(k[:len(key)], key)
            if e is False:
                continue
            pend.append((e, k, v))
            if e is True and len(k) == len(key):
                found_definite = True
                break
        if len(self._shape) > len(key):
            # partial index: assemble the sub-array from writes addressing inside it
            sub_shape = self._shape[len(key):]
            if any(_is_sym(s) for s in sub_shape):
                raise SymError("partial read with symbolic trailing shape")
            out = np.empty([int(s) for s in sub_shape], dtype=object)
            out[...] = self.fill
            for (e, k, v) in reversed(pend):
                if e is not True:
                    raise SymError("partial read with undecided row match")
                rest = tuple(int(r) for r in k[len(key):])
                _fill(out, rest, v)
            return self._decode(out)
        val = self.fill
        for (e, k, v) in reversed(pend):
            val = v if e is True else P.ite(e, v, val)
        return self._decode(val)

    def _decode(self, v):
        """h5py returns variable-length strings as bytes objects."""
        if not (isinstance(self.dtype, _VLen) and self.dtype.base is str):
            return v
        if isinstance(v, str):
            return v.encode()
        if isinstance(v, np.ndarray):
            out = np.empty(v.shape, dtype=object)
            for i in np.ndindex(v.shape):
                out[i] = v[i].encode() if isinstance(v[i], str) else v[i]
            return out
        return v

    def _gather(self, rows):
        rows = list(rows)
        if len(self._shape) == 1:
            out = np.empty(len(rows), dtype=object)
            for i, r in enumerate(rows):
                out[i] = self._lookup((r,))
            return out
        items = [self._lookup((r,)) for r in rows]
        if not items:
            return np.empty([0] + [int(s) for s in self._shape[1:]], dtype=object)
        return np.stack(items, axis=0)

    def __getitem__(self, key):
        if isinstance(key, str):
            raise KeyError(key)
        if isinstance(key, slice):
            n = self._shape[0]
            if _is_sym(n) or _is_sym(key.start) or _is_sym(key.stop):
                if key.step not in (None, 1):
                    raise SymError("stepped symbolic slice")
                a = 0 if key.start is None else key.start
                b = n if key.stop is None else key.stop
                a = _clamp(a, 0, n)
                b = _clamp(b, a, n)
                return Rows(self, a, b)
            rng = range(*key.indices(int(n)))
            if key.step in (None, 1) and self.force_rows:
                return Rows(self, rng.start, max(rng.start, rng.stop))
            return self._nd(self._gather(rng))
        if isinstance(key, tuple):
            if isinstance(key[0], slice):
                n = self._shape[0]
                if _is_sym(n):
                    raise SymError("symbolic leading slice with trailing index")
                rows = range(*key[0].indices(int(n)))
                got = [self._lookup((r,) + tuple(key[1:])) for r in rows]
                if not got:
                    tail = [int(s) for s in self._shape[len(key):]]
                    return np.empty([0] + tail, dtype=object).view(A.SymArray)
                return np.stack([np.asarray(g, dtype=object) for g in got], axis=0).view(A.SymArray)
            r = self._lookup(tuple(key))
            return self._nd(r) if isinstance(r, np.ndarray) else r
        r = self._lookup((key,))
        return self._nd(r) if isinstance(r, np.ndarray) else r

    def __iter__(self):
        return iter(self._gather(range(len(self))))

    def __array__(self, dtype=None, copy=None):
        return np.asarray(self._gather(range(len(self))), dtype=dtype)


def _fill(out, idx, v):
    """out[idx] = v where v may span the remaining dimensions of out."""
    if len(idx) == out.ndim:
        out[idx] = v
        return
    n = out.shape[len(idx)]
    try:
        ln = len(v)
    except TypeError:
        ln = None
    if ln is None:
        for t in range(n):
            _fill(out, idx + (t,), v)
        return
    if ln != n:
        raise ValueError("could not broadcast input of length %d into axis of length %d" % (ln, n))
    for t in range(n):
        _fill(out, idx + (t,), v[t])


class _VLen:
    def __init__(self, base):
        self.base = base


class Group:
    def __init__(self, file, path):
        self._file = file
        self._path = path.rstrip('/')
        self.attrs = file._attrs.setdefault(self._path or '/', Attrs())

    def _abs(self, name):
        if name.startswith('/'):
            return name.rstrip('/') or '/'
        return (self._path + '/' + name).rstrip('/')

    def __contains__(self, name):
        p = self._abs(name)
        return p in self._file._nodes

    def __getitem__(self, name):
        p = self._abs(name)
        node = self._file._nodes.get(p)
        if node is None:
            raise KeyError("Unable to open object (object %r doesn't exist)" % name)
        if node == 'group':
            return Group(self._file, p)
        return node

    def __delitem__(self, name):
        p = self._abs(name)
        for k in [k for k in self._file._nodes if k == p or k.startswith(p + '/')]:
            del self._file._nodes[k]

    def create_group(self, name):
        p = self._abs(name)
        parts = p.strip('/').split('/')
        for i in range(1, len(parts) + 1):
            q = '/' + '/'.join(parts[:i])
            self._file._nodes.setdefault(q, 'group')
        return Group(self._file, p)

    def create_dataset(self, name, shape=None, dtype=None, maxshape=None, data=None, **kw):
        p = self._abs(name)
        parent = p.rsplit('/', 1)[0]
        if parent:
            self.create_group(parent)
        ds = Dataset(p, shape if shape is not None else (0,), dtype, maxshape)
        self._file._nodes[p] = ds
        return ds

    def visit(self, fn):
        for k in sorted(self._file._nodes):
            if k.startswith(self._path + '/'):
                r = fn(k[len(self._path) + 1:])
                if r is not None:
                    return r

    def keys(self):
        pre = self._path + '/'
        return sorted({k[len(pre):].split('/')[0] for k in self._file._nodes if k.startswith(pre)})


class FileModel(Group):
    """One HDF5 file; persists in STORE across open/close (append sessions)."""

    def __init__(self, name):
        self.name = name
        self._nodes = {}
        self._attrs = {}
        Group.__init__(self, self, '')
        self.open_count = 0
        self.mode = None

    def close(self):
        pass

    @property
    def filename(self):
        return self.name


class H5Shim:
    """Stands in for the `h5py` module inside pyrex.io / pyrex.generation."""
    Dataset = Dataset
    Group = Group

    class version:
        version_tuple = (3, 16, 0)
        version = '3.16.0'

    def __init__(self):
        self.store = {}

    def File(self, filename, mode='r', **kw):
        if mode in ('w',) or (mode in ('x', 'w-') and filename not in self.store):
            f = FileModel(filename)
            self.store[filename] = f
        elif mode in ('x', 'w-'):
            raise FileExistsError(filename)
        elif mode in ('a',):
            f = self.store.setdefault(filename, FileModel(filename))
        else:
            if filename not in self.store:
                raise FileNotFoundError(filename)
            f = self.store[filename]
        f.mode = mode
        f.open_count += 1
        return f

    def special_dtype(self, vlen=None, **kw):
        return _VLen(vlen)

    def __getattr__(self, name):
        import h5py
        return getattr(h5py, name)
