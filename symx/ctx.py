"""Path context and decision-replay exploration (DESIGN.md 1.2).

One ``PathCtx`` lives for one execution of a harness along one path: it owns the z3
solver holding the path condition and all axioms of the atoms created so far.  The
``Explorer`` re-executes the harness once per decision prefix until no unexplored branch
remains (that exhaustion is the unwinding assertion) or a budget is hit (inconclusive).
"""
import time
from fractions import Fraction
import z3

_CUR = [None]


def cur():
    c = _CUR[0]
    if c is None:
        raise RuntimeError("no active symbolic path context")
    return c


def active():
    return _CUR[0] is not None


class Infeasible(BaseException):
    """Raised to abandon a path whose condition became unsatisfiable."""


class BudgetExceeded(BaseException):
    pass


def is_nonlinear(e, _depth=0):
    """Does a z3 term contain a product of non-numerals, a power, a division by a
    non-numeral or an integer conversion?  (Used to keep such axioms out of the light
    solver.)"""
    todo = [e]
    seen = 0
    while todo:
        t = todo.pop()
        seen += 1
        if seen > 4000:
            return True
        if not z3.is_app(t):
            return True
        k = t.decl().kind()
        ch = t.children()
        if k == z3.Z3_OP_MUL:
            if sum(1 for c in ch if not (z3.is_rational_value(c) or z3.is_int_value(c))) >= 2:
                return True
        elif k in (z3.Z3_OP_POWER, z3.Z3_OP_TO_INT, z3.Z3_OP_IS_INT, z3.Z3_OP_IDIV, z3.Z3_OP_MOD,
                   z3.Z3_OP_REM):
            return True
        elif k == z3.Z3_OP_DIV:
            if not (z3.is_rational_value(ch[1]) or z3.is_int_value(ch[1])):
                return True
        todo.extend(ch)
    return False


class Stats:
    def __init__(self):
        self.queries = {'sat': 0, 'unsat': 0, 'unknown': 0}
        self.solver_s = 0.0
        self.paths = 0
        self.max_atoms = 0
        self.sample_smt = None

    def merge(self, o):
        for k in self.queries:
            self.queries[k] += o.queries[k]
        self.solver_s += o.solver_s
        self.paths += o.paths
        self.max_atoms = max(self.max_atoms, o.max_atoms)
        if self.sample_smt is None:
            self.sample_smt = o.sample_smt


class PathCtx:
    def __init__(self, explorer, prefix):
        self.ex = explorer
        self.prefix = prefix
        self.pos = 0
        self.trace = []
        self.new_work = []
        self.solver = z3.Solver()
        self.solver.set('timeout', explorer.query_timeout_ms)
        self.solver.set('rlimit', explorer.rlimit)
        # light solver: path condition + linear axioms only (no definitional equations of
        # sqrt / inverse / let atoms ...).  unsat there is unsat in the full context too.
        self.light = z3.Solver()
        self.light.set('timeout', min(explorer.query_timeout_ms, explorer.light_timeout_ms))
        self.light.set('rlimit', explorer.rlimit)
        if explorer.seed:
            self.solver.set('random_seed', explorer.seed % (2 ** 30))
            self.light.set('random_seed', explorer.seed % (2 ** 30))
        self.n_heavy = 0
        self.last_model = None
        self.check_div = False
        self.resolve_ite = explorer.resolve_ite
        self.ite_cache = {}
        self.merge_exp = explorer.merge_exp
        self.reduce_powers = explorer.reduce_powers
        self.angle_inputs = {}
        self.div_zero = []
        self.atoms = []
        self.atom_keys = []
        self.atom_by_key = {}
        self.inputs = {}          # name -> (kind, z3 const, lo, hi)
        self.fun_atoms = {}
        self.trig_atoms = []
        self.trig_points = []
        self.angle_info = {}
        self.atan2_done = set()
        self.inv_of = {}
        self.inv_pair = {}
        self.exp_points = []
        self.log_atom_arg = {}
        self.div_guards = []
        self.sqrt_guards = []
        self.log_guards = []
        self.domain_guards = []
        self.n_fresh = 0
        self.n_axioms = 0
        self.pc = []
        self.notes = []

    # ---- atoms
    def fresh_real(self, pfx):
        self.n_fresh += 1
        return z3.Real("%s!%d" % (pfx, self.n_fresh))

    def fresh_int(self, pfx):
        self.n_fresh += 1
        return z3.Int("%s!%d" % (pfx, self.n_fresh))

    def fresh_bool(self, pfx):
        self.n_fresh += 1
        return z3.Bool("%s!%d" % (pfx, self.n_fresh))

    def new_atom(self, expr, key):
        self.atoms.append(expr)
        self.atom_keys.append(key)
        idx = len(self.atoms) - 1
        self.atom_by_key[key] = idx
        return idx

    def add_axiom(self, e, heavy=None):
        self.n_axioms += 1
        self.solver.add(e)
        if heavy is None:
            heavy = is_nonlinear(e)
        if heavy:
            self.n_heavy += 1
        else:
            self.light.add(e)

    def add_pc(self, e):
        self.solver.add(e)
        self.light.add(e)
        self.pc.append(e)

    def log_arg_of_poly(self, a0):
        """exp(p): if p == k*log(x) (+ c) for a single log atom, return x^k * e^c."""
        from .poly import ONE, SymReal, power, mul
        import math
        from fractions import Fraction as Fr
        c0 = Fr(0)
        hit = None
        for m, co in a0.p.items():
            if m == ONE:
                c0 = co
            elif len(m) == 1 and m[0][1] == 1 and m[0][0] in self.log_atom_arg \
                    and co.denominator == 1 and abs(co) <= 6 and hit is None:
                hit = (m[0][0], int(co))
            else:
                return None
        if hit is None:
            return None
        x = self.log_atom_arg[hit[0]]
        r = power(x, hit[1])
        if c0 != 0:
            r = mul(r, math.exp(c0))
        return r

    # ---- solver plumbing
    def _check(self, *extra, light=False, portfolio=False):
        t0 = time.time()
        solver = self.light if (light and self.n_heavy) else self.solver
        if light and not self.n_heavy:
            light = False
        if extra:
            solver.push()
            for e in extra:
                solver.add(e)
        if self.ex.stats.sample_smt is None and extra and self.ex.want_sample and not light:
            try:
                self.ex.stats.sample_smt = solver.to_smt2()[:6000]
            except Exception:
                pass
        r = solver.check()
        model = None
        if r == z3.sat:
            model = solver.model()
            if not light:
                self.last_model = model
        if r == z3.unknown and not light and portfolio and self.ex.oneshot:
            # portfolio: z3's incremental mode and its one-shot pipeline (nlsat) have
            # different strengths; a fresh solver without a wall-clock timeout parameter
            # selects the latter (bounded by rlimit instead)
            s2 = z3.Solver()
            s2.set('rlimit', self.ex.rlimit)
            s2.add(solver.assertions())
            r = s2.check()
            if r == z3.sat:
                model = s2.model()
        if extra:
            solver.pop()
        dt = time.time() - t0
        st = self.ex.stats
        st.solver_s += dt
        st.queries[str(r)] += 1
        st.max_atoms = max(st.max_atoms, len(self.atoms))
        if time.time() > self.ex.deadline:
            raise BudgetExceeded("wall-clock budget")
        return str(r), model

    def check_fresh(self, *extra, rlimit=None):
        """One-shot query in a fresh solver (z3's nlsat pipeline; no wall-clock timeout
        parameter, which would select the weaker incremental strategy - bounded by rlimit)."""
        t0 = time.time()
        s2 = z3.Solver()
        s2.set('rlimit', rlimit or self.ex.rlimit * 5)
        s2.add(self.solver.assertions())
        for e in extra:
            s2.add(e)
        r = s2.check()
        model = s2.model() if r == z3.sat else None
        st = self.ex.stats
        st.solver_s += time.time() - t0
        st.queries[str(r)] += 1
        if model is not None:
            self.last_model = model
        return str(r), model

    def assume(self, cond):
        """Add a precondition; abandon the path if it makes the condition unsat."""
        from .poly import b_z3
        if isinstance(cond, bool):
            if not cond:
                raise Infeasible()
            return
        e = b_z3(cond)
        self.add_pc(e)
        r, _ = self._check(light=True)
        if r == 'unsat':
            raise Infeasible()
        if self.n_heavy:
            r, _ = self._check()
            if r == 'unsat':
                raise Infeasible()
            if r == 'unknown':
                self.notes.append('unknown-feasibility')

    def decide(self, cond):
        """Fork on a z3 Bool: follow one feasible side, queue the other."""
        if self.pos < len(self.prefix):
            d = self.prefix[self.pos]
            if not isinstance(d, bool):
                raise RuntimeError("decision replay out of sync (expected bool)")
        else:
            # light checks of both sides first: if one side contradicts the path condition
            # (+ linear axioms) the other one is taken without a full query
            lt = lf = None
            if self.n_heavy and self.ex.light_decide:
                lt, _ = self._check(cond, light=True)
                if lt != 'unsat':
                    lf, _ = self._check(z3.Not(cond), light=True)
            if lt == 'unsat':
                rt, rf = 'unsat', 'sat'
            elif lf == 'unsat':
                rt, rf = 'sat', 'unsat'
            else:
                rt = self._feasible(cond)
                rf = 'sat' if rt == 'unsat' else self._feasible(z3.Not(cond))
            t = rt != 'unsat'
            f = rf != 'unsat'
            if rt == 'unknown' or rf == 'unknown':
                self.notes.append('unknown-feasibility')
            if t and f:
                d = True
                self.new_work.append(self.trace + [False])
            elif t:
                d = True
            elif f:
                d = False
            else:
                raise Infeasible()
        self.pos += 1
        self.trace.append(d)
        c = cond if d else z3.Not(cond)
        self.add_pc(c)
        return d

    def _feasible(self, cond):
        """sat / unsat / unknown for pc AND cond: the light context first (its unsat is
        definitive), then the full one under a short timeout, then a model search by
        partial instantiation (a model found that way is a genuine model)."""
        if self.n_heavy:
            r, _ = self._check(cond, light=True)
            if r == 'unsat':
                return r
            self.solver.set('timeout', min(self.ex.query_timeout_ms, 4000))
            try:
                r, _ = self._check(cond)
            finally:
                self.solver.set('timeout', self.ex.query_timeout_ms)
            if r != 'unknown':
                return r
            m = self.guided(cond, tries=4)
            return 'sat' if m is not None else 'unknown'
        r, _ = self._check(cond)
        return r

    def guided(self, *extra, tries=6):
        """Model search by partial instantiation: fix a pseudo-random subset of the inputs
        to values of their domains; any model found satisfies the full context."""
        import random
        from .poly import _rv, _fr
        rng = random.Random(1234 + self.ex.seed + len(self.pc))
        names = [n for n, (k, v, lo, hi) in self.inputs.items() if k in ('real', 'int')]
        old_to = self.ex.query_timeout_ms
        try:
            for t in range(tries):
                frac = 0.5 if t < tries // 2 else 0.85
                eqs = []
                for n in names:
                    if rng.random() < frac:
                        k, v, lo, hi = self.inputs[n]
                        lo_ = -1.0 if lo is None else float(lo)
                        hi_ = lo_ + 2.0 if hi is None else float(hi)
                        val = rng.choice([lo_, hi_, (lo_ + hi_) / 2, rng.uniform(lo_, hi_),
                                          round(rng.uniform(lo_, hi_), 1)])
                        if k == 'int':
                            eqs.append(v == int(round(val)))
                        else:
                            eqs.append(v == _rv(_fr(val)))
                self.solver.set('timeout', 3000)
                r, m = self._check(*(list(extra) + eqs))
                if r == 'sat':
                    # make the model faithful on exp/log atoms: add the points at the
                    # model's arguments and ask again with every input pinned
                    for _ in range(3):
                        if not self.refine(m):
                            return m
                        r2, m2 = self._check(*(list(extra) + self.pins(m)))
                        if r2 != 'sat':
                            m = None
                            break
                        m = m2
                    if m is not None:
                        return m
        finally:
            self.solver.set('timeout', old_to)
        return None

    def refine(self, m):
        """Incremental linearisation: where the model's value of an exp/log atom is off the
        true function at the model's argument, add the point (step bounds + tangent) there.
        Returns the number of points added (0: the model is faithful on these atoms)."""
        import math
        from . import poly as P
        from .explore import _z3_to_float
        added = 0
        for kind in ('exp', 'log'):
            for (idx, arg) in list(self.fun_atoms.get(kind, [])):
                try:
                    a = _z3_to_float(m.eval(arg.z3(), model_completion=True))
                    v = _z3_to_float(m.eval(self.atoms[idx], model_completion=True))
                except Exception:
                    continue
                if kind == 'exp':
                    if abs(a) > 700:
                        continue
                    true = math.exp(a)
                    if abs(v - true) > 1e-5 * (1 + abs(true)) and P.note_exp_point(a, true, True):
                        added += 1
                else:
                    if a <= 0:
                        continue
                    true = math.log(a)
                    if abs(v - true) > 1e-5 * (1 + abs(true)) and P.note_exp_point(true, a, True):
                        added += 1
        return added

    def pins(self, m):
        """Equalities fixing every input and every uninterpreted-function value to the
        model's value (the transcendental atoms are then determined up to the axioms' slack)."""
        from .poly import _rv
        eqs = []
        for n, (k, v, lo, hi) in self.inputs.items():
            try:
                eqs.append(v == m.eval(v, model_completion=True))
            except Exception:
                pass
        for name, table in getattr(self, 'ufuns', {}).items():
            for (az, v) in table:
                eqs.append(v == m.eval(v, model_completion=True))
        return eqs

    def choose(self, k, label=None):
        """Fork over range(k) without a solver variable (a structural choice)."""
        if k <= 0:
            raise Infeasible()
        if self.pos < len(self.prefix):
            d = self.prefix[self.pos]
            if not (isinstance(d, tuple) and d[0] == 'ch'):
                raise RuntimeError("decision replay out of sync (expected choice)")
            v = d[1]
        else:
            v = 0
            for w in range(k - 1, 0, -1):
                self.new_work.append(self.trace + [('ch', w)])
        self.pos += 1
        self.trace.append(('ch', v))
        return v

    def concretize_int(self, e, limit=12, real=None):
        """Enumerate the feasible values of int(x) for a real term x (fork per value).
        Works with real arithmetic only: a model of the path condition gives a value of x,
        its truncation v is feasible, and `v <= x < v+1` (resp. the mirrored range for
        negative v) is excluded for the next round - no ToInt reaches the solver."""
        if real is None:
            e = z3.simplify(e)
            if z3.is_int_value(e):
                return e.as_long()
            # recover the real argument of trunc_z3
            real = _trunc_arg(e)
        if real is None:
            raise BudgetExceeded("cannot concretise a non-truncation integer term")
        rs = z3.simplify(real)
        if z3.is_rational_value(rs):
            fr = Fraction(rs.numerator_as_long(), rs.denominator_as_long())
            return int(fr)
        if self.pos < len(self.prefix):
            d = self.prefix[self.pos]
            if not (isinstance(d, tuple) and d[0] == 'int'):
                raise RuntimeError("decision replay out of sync (expected int)")
            excluded = list(d[1])
        else:
            excluded = []

        def rng(v):
            if v > 0:
                return z3.And(real >= v, real < v + 1)
            if v < 0:
                return z3.And(real > v - 1, real <= v)
            return z3.And(real > -1, real < 1)
        for x in excluded:
            self.add_pc(z3.Not(rng(x)))
        r, m = self._check()
        if r != 'sat':
            if r == 'unknown':
                self.notes.append('unknown-feasibility')
                raise BudgetExceeded("unknown while concretising an integer")
            raise Infeasible()
        val = m.eval(real, model_completion=True)
        v = int(_as_fraction(val))
        if len(excluded) + 1 > limit:
            raise BudgetExceeded("integer with more than %d feasible values" % limit)
        r2 = self._feasible(z3.Not(rng(v)))
        if r2 != 'unsat':
            self.new_work.append(self.trace + [('int', tuple(excluded + [v]))])
        self.pos += 1
        self.trace.append(('int', tuple(excluded)))
        self.add_pc(rng(v))
        return v


def _trunc_arg(e):
    """trunc_z3 builds If(x >= 0, ToInt(x), -ToInt(-x)); recover x."""
    try:
        if e.decl().kind() == z3.Z3_OP_ITE:
            c = e.arg(0)
            if c.decl().kind() == z3.Z3_OP_GE:
                return c.arg(0)
        if e.decl().kind() == z3.Z3_OP_TO_INT:
            return e.arg(0)
    except Exception:
        pass
    return None


def _as_fraction(val):
    if z3.is_rational_value(val):
        return Fraction(val.numerator_as_long(), val.denominator_as_long())
    if z3.is_algebraic_value(val):
        a = val.approx(40)
        return Fraction(a.numerator_as_long(), a.denominator_as_long())
    raise BudgetExceeded("model value %r is not a number" % val)


class Explorer:
    """Runs fn(ctx) over all feasible paths."""

    def __init__(self, max_paths=400, wall_s=120.0, query_timeout_ms=20000, seed=0,
                 want_sample=True, rlimit=4000000, oneshot=False,
                 light_timeout_ms=5000, reduce_powers=True, resolve_ite=False,
                 merge_exp=True, light_decide=False):
        self.rlimit = rlimit
        self.light_decide = light_decide
        self.reduce_powers = reduce_powers
        self.resolve_ite = resolve_ite
        self.merge_exp = merge_exp
        self.light_timeout_ms = light_timeout_ms
        self.oneshot = oneshot
        self.max_paths = max_paths
        self.wall_s = wall_s
        self.query_timeout_ms = query_timeout_ms
        self.seed = seed
        self.stats = Stats()
        self.want_sample = want_sample
        self.deadline = 0
        self.exhausted = False
        self.budget_note = None

    def run(self, fn):
        self.deadline = time.time() + self.wall_s
        work = [[]]
        self.exhausted = False
        results = []
        while work:
            if self.stats.paths >= self.max_paths:
                self.budget_note = "path budget %d" % self.max_paths
                return results
            prefix = work.pop()
            c = PathCtx(self, prefix)
            _CUR[0] = c
            out = None
            try:
                out = fn(c)
                results.append((c, out))
            except Infeasible:
                pass
            except BudgetExceeded as e:
                self.budget_note = str(e)
                _CUR[0] = None
                return results
            finally:
                _CUR[0] = None
            self.stats.paths += 1
            work.extend(c.new_work)
            if isinstance(out, dict) and out.get('stop'):
                self.budget_note = out['stop']
                return results
        self.exhausted = True
        return results
