"""Path context and decision-replay exploration (DESIGN.md 1.2).

One ``PathCtx`` lives for one execution of a harness along one path: it owns the z3
solver holding the path condition and all axioms of the atoms created so far.  The
``Explorer`` re-executes the harness once per decision prefix until no unexplored branch
remains (that exhaustion is the unwinding assertion) or a budget is hit (inconclusive).
"""
import time
import z3

_CUR = [None]


def cur():
    c = _CUR[0]
    if c is None:
        raise RuntimeError("no active symbolic path context")
    return c


def active():
    return _CUR[0] is not None


class Infeasible(BaseException):
    """Raised to abandon a path whose condition became unsatisfiable."""


class BudgetExceeded(BaseException):
    pass


class Stats:
    def __init__(self):
        self.queries = {'sat': 0, 'unsat': 0, 'unknown': 0}
        self.solver_s = 0.0
        self.paths = 0
        self.max_atoms = 0
        self.sample_smt = None

    def merge(self, o):
        for k in self.queries:
            self.queries[k] += o.queries[k]
        self.solver_s += o.solver_s
        self.paths += o.paths
        self.max_atoms = max(self.max_atoms, o.max_atoms)
        if self.sample_smt is None:
            self.sample_smt = o.sample_smt


class PathCtx:
    def __init__(self, explorer, prefix):
        self.ex = explorer
        self.prefix = prefix
        self.pos = 0
        self.trace = []
        self.new_work = []
        self.solver = z3.Solver()
        self.solver.set('timeout', explorer.query_timeout_ms)
        self.solver.set('rlimit', explorer.rlimit)
        if explorer.seed:
            self.solver.set('random_seed', explorer.seed % (2 ** 30))
        self.atoms = []
        self.atom_keys = []
        self.atom_by_key = {}
        self.inputs = {}          # name -> (kind, z3 const, lo, hi)
        self.fun_atoms = {}
        self.trig_atoms = []
        self.angle_info = {}
        self.atan2_done = set()
        self.inv_of = {}
        self.inv_pair = {}
        self.exp_points = []
        self.log_atom_arg = {}
        self.div_guards = []
        self.sqrt_guards = []
        self.log_guards = []
        self.domain_guards = []
        self.n_fresh = 0
        self.n_axioms = 0
        self.pc = []
        self.notes = []

    # ---- atoms
    def fresh_real(self, pfx):
        self.n_fresh += 1
        return z3.Real("%s!%d" % (pfx, self.n_fresh))

    def fresh_int(self, pfx):
        self.n_fresh += 1
        return z3.Int("%s!%d" % (pfx, self.n_fresh))

    def fresh_bool(self, pfx):
        self.n_fresh += 1
        return z3.Bool("%s!%d" % (pfx, self.n_fresh))

    def new_atom(self, expr, key):
        self.atoms.append(expr)
        self.atom_keys.append(key)
        idx = len(self.atoms) - 1
        self.atom_by_key[key] = idx
        return idx

    def add_axiom(self, e):
        self.n_axioms += 1
        self.solver.add(e)

    def log_arg_of_poly(self, a0):
        """exp(p): if p == k*log(x) (+ c) for a single log atom, return x^k * e^c."""
        from .poly import ONE, SymReal, power, mul
        import math
        from fractions import Fraction as Fr
        c0 = Fr(0)
        hit = None
        for m, co in a0.p.items():
            if m == ONE:
                c0 = co
            elif len(m) == 1 and m[0][1] == 1 and m[0][0] in self.log_atom_arg \
                    and co.denominator == 1 and abs(co) <= 6 and hit is None:
                hit = (m[0][0], int(co))
            else:
                return None
        if hit is None:
            return None
        x = self.log_atom_arg[hit[0]]
        r = power(x, hit[1])
        if c0 != 0:
            r = mul(r, math.exp(c0))
        return r

    # ---- solver plumbing
    def _check(self, *extra):
        t0 = time.time()
        if extra:
            self.solver.push()
            for e in extra:
                self.solver.add(e)
        if self.ex.stats.sample_smt is None and extra and self.ex.want_sample:
            try:
                self.ex.stats.sample_smt = self.solver.to_smt2()[:6000]
            except Exception:
                pass
        r = self.solver.check()
        model = None
        if r == z3.sat:
            model = self.solver.model()
        if extra:
            self.solver.pop()
        dt = time.time() - t0
        st = self.ex.stats
        st.solver_s += dt
        st.queries[str(r)] += 1
        st.max_atoms = max(st.max_atoms, len(self.atoms))
        if time.time() > self.ex.deadline:
            raise BudgetExceeded("wall-clock budget")
        return str(r), model

    def assume(self, cond):
        """Add a precondition; abandon the path if it makes the condition unsat."""
        from .poly import b_z3
        if isinstance(cond, bool):
            if not cond:
                raise Infeasible()
            return
        e = b_z3(cond)
        self.solver.add(e)
        self.pc.append(e)
        r, _ = self._check()
        if r == 'unsat':
            raise Infeasible()

    def decide(self, cond):
        """Fork on a z3 Bool: follow one feasible side, queue the other."""
        if self.pos < len(self.prefix):
            d = self.prefix[self.pos]
            if not isinstance(d, bool):
                raise RuntimeError("decision replay out of sync (expected bool)")
        else:
            rt, _ = self._check(cond)
            rf, _ = self._check(z3.Not(cond))
            t = rt != 'unsat'
            f = rf != 'unsat'
            if rt == 'unknown' or rf == 'unknown':
                self.notes.append('unknown-feasibility')
            if t and f:
                d = True
                self.new_work.append(self.trace + [False])
            elif t:
                d = True
            elif f:
                d = False
            else:
                raise Infeasible()
        self.pos += 1
        self.trace.append(d)
        c = cond if d else z3.Not(cond)
        self.solver.add(c)
        self.pc.append(c)
        return d

    def choose(self, k, label=None):
        """Fork over range(k) without a solver variable (a structural choice)."""
        if k <= 0:
            raise Infeasible()
        if self.pos < len(self.prefix):
            d = self.prefix[self.pos]
            if not (isinstance(d, tuple) and d[0] == 'ch'):
                raise RuntimeError("decision replay out of sync (expected choice)")
            v = d[1]
        else:
            v = 0
            for w in range(k - 1, 0, -1):
                self.new_work.append(self.trace + [('ch', w)])
        self.pos += 1
        self.trace.append(('ch', v))
        return v

    def concretize_int(self, e, limit=12):
        """Enumerate the feasible values of an Int term (fork per value)."""
        e = z3.simplify(e)
        if z3.is_int_value(e):
            return e.as_long()
        if self.pos < len(self.prefix):
            d = self.prefix[self.pos]
            if not (isinstance(d, tuple) and d[0] == 'int'):
                raise RuntimeError("decision replay out of sync (expected int)")
            excluded = list(d[1])
        else:
            excluded = []
        for x in excluded:
            self.solver.add(e != x)
            self.pc.append(e != x)
        # integer truncation of a nonlinear real term sends z3 into NIA, where it may ignore
        # its wall-clock timeout: bound the resources for this kind of query
        self.solver.set('rlimit', 400000)
        try:
            r, m = self._check()
        finally:
            self.solver.set('rlimit', self.ex.rlimit)
        if r != 'sat':
            if r == 'unknown':
                self.notes.append('unknown-feasibility')
                raise BudgetExceeded("unknown while concretising an integer")
            raise Infeasible()
        v = m.eval(e, model_completion=True).as_long()
        if len(excluded) + 1 > limit:
            raise BudgetExceeded("integer with more than %d feasible values" % limit)
        # is there another value?
        r2, _ = self._check(e != v)
        if r2 != 'unsat':
            self.new_work.append(self.trace + [('int', tuple(excluded + [v]))])
        self.pos += 1
        self.trace.append(('int', tuple(excluded)))
        self.solver.add(e == v)
        self.pc.append(e == v)
        return v


class Explorer:
    """Runs fn(ctx) over all feasible paths."""

    def __init__(self, max_paths=400, wall_s=120.0, query_timeout_ms=20000, seed=0,
                 want_sample=True, rlimit=4000000):
        self.rlimit = rlimit
        self.max_paths = max_paths
        self.wall_s = wall_s
        self.query_timeout_ms = query_timeout_ms
        self.seed = seed
        self.stats = Stats()
        self.want_sample = want_sample
        self.deadline = 0
        self.exhausted = False
        self.budget_note = None

    def run(self, fn):
        self.deadline = time.time() + self.wall_s
        work = [[]]
        self.exhausted = False
        results = []
        while work:
            if self.stats.paths >= self.max_paths:
                self.budget_note = "path budget %d" % self.max_paths
                return results
            prefix = work.pop()
            c = PathCtx(self, prefix)
            _CUR[0] = c
            try:
                out = fn(c)
                results.append((c, out))
            except Infeasible:
                pass
            except BudgetExceeded as e:
                self.budget_note = str(e)
                _CUR[0] = None
                return results
            finally:
                _CUR[0] = None
            self.stats.paths += 1
            work.extend(c.new_work)
        self.exhausted = True
        return results
