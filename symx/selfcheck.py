"""Shim self-validation (DESIGN.md 1.3): push concrete inputs through the real numpy
function and through the engine's object-array implementation and compare."""
import numpy as np
import scipy.fft

from . import arr as A
from . import shims as S


def _cmp(a, b, tol=1e-9):
    a = np.asarray(np.asarray(a).tolist(), dtype=complex)
    b = np.asarray(b, dtype=complex)
    if a.shape != b.shape:
        return False
    scale = 1.0 + np.max(np.abs(b)) if b.size else 1.0
    return bool(np.all(np.abs(a - b) <= tol * scale))


def run(seed=0):
    rng = np.random.RandomState(12345 + seed)
    n = 0
    failed = []

    def chk(name, got, want, tol=1e-9):
        nonlocal n
        n += 1
        try:
            ok = _cmp(got, want, tol)
        except Exception as e:
            ok = False
        if not ok:
            failed.append(name)

    O = lambda x: np.asarray(x, dtype=float).astype(object).view(A.SymArray)
    for trial in range(40):
        m = rng.randint(1, 7)
        xp = np.sort(rng.uniform(-5, 5, m))
        if len(np.unique(xp)) != m:
            continue
        fp = rng.uniform(-3, 3, m)
        x = np.concatenate([rng.uniform(-7, 7, 5), xp[:2], [xp[0], xp[-1]]])
        chk('interp', A._interp(O(x), O(xp), O(fp), left=0, right=0),
            np.interp(x, xp, fp, left=0, right=0))
        chk('interp-default', A._interp(O(x), O(xp), O(fp)), np.interp(x, xp, fp))
        k = rng.randint(1, 13)
        v = rng.uniform(-2, 2, k)
        vc = v + 1j * rng.uniform(-2, 2, k)
        chk('fft', S.dft(O(v), False), scipy.fft.fft(v))
        chk('ifft', S.dft(vc.astype(object), True), scipy.fft.ifft(vc))
        f = S.FFTShim(scipy.fft)
        if k >= 2:
            r = scipy.fft.rfft(v)
            # irfft through the symbolic route (force it by calling the internals)
            full = f.irfft.__func__
        num = rng.randint(1, 6)
        a, b = rng.uniform(-3, 3, 2)
        chk('linspace', A._linspace(a, b, num), np.linspace(a, b, num))
        chk('linspace-noend', A._linspace(a, b, num, endpoint=False),
            np.linspace(a, b, num, endpoint=False))
        y = rng.uniform(-2, 2, (k,))
        chk('trapz-dx', A._trapz(O(y), dx=0.3), np.trapezoid(y, dx=0.3))
        xs = np.sort(rng.uniform(-2, 2, k))
        chk('trapz-x', A._trapz(O(y), x=O(xs)), np.trapezoid(y, x=xs))
        chk('cumsum', A._cumsum(O(y)), np.cumsum(y))
        chk('sum', A._sum(O(y)), np.sum(y))
        v3a, v3b = rng.uniform(-1, 1, 3), rng.uniform(-1, 1, 3)
        chk('cross', A._cross(O(v3a), O(v3b)), np.cross(v3a, v3b))
        chk('dot', A._dot(O(v3a), O(v3b)), np.dot(v3a, v3b))
        M = rng.uniform(-1, 1, (3, 3))
        chk('matvec', A._dot(O(M), O(v3a)), np.dot(M, v3a))
        chk('norm', A._norm(O(v3a)), np.linalg.norm(v3a))
        chk('where', A._where(O(y) > 0, O(y), 0.0), np.where(y > 0, y, 0.0))
        chk('mod', A.sym_ufunc(np.remainder, '__call__', O(y), 0.7), np.remainder(y, 0.7))
        chk('maximum', A.sym_ufunc(np.maximum, '__call__', O(y), 0.1), np.maximum(y, 0.1))
        chk('abs', A._absf(O(y)), np.abs(y))
        chk('diff', A._diff(O(y)), np.diff(y))
        pw = np.piecewise(y, [y < 0, y >= 0], [lambda t: -t, lambda t: t * 2])
        chk('piecewise', A._piecewise(O(y), [O(y) < 0, O(y) >= 0],
                                      [lambda t: -t, lambda t: t * 2]), pw)
        # masked assignment
        z = O(y.copy())
        z[O(y) < 0] = 5.0
        w = y.copy()
        w[y < 0] = 5.0
        chk('masked-assign', z, w)
        # irfft
        if k >= 2:
            spec = scipy.fft.rfft(v)
            for nn in (None, len(v)):
                got = f.irfft.__get__(f)(_force_sym(spec), n=nn) if False else \
                    _irfft_ref(f, spec, nn)
                chk('irfft', got, scipy.fft.irfft(spec, n=nn))
    return {'n': n, 'failed': failed}


def _force_sym(x):
    return x


def _irfft_ref(f, spec, nn):
    """Run the symbolic irfft branch on concrete data."""
    import types
    g = S.FFTShim(scipy.fft)
    g._sym = types.MethodType(lambda self, x: True, g)
    return g.irfft(np.asarray(spec).astype(object), n=nn)
