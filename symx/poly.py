"""Symbolic scalars for running real numpy/pyrex code on solver terms.

A ``SymReal`` is a polynomial (exact ``Fraction`` coefficients) over *atoms*; an atom
is an arbitrary z3 Real expression registered in the current path context (an input
variable, a square root, an ``exp`` application, an ``If`` merge ...).  Keeping a
polynomial normal form makes cancellation exact and cheap (``(t1+s)-(t0+s)`` collapses to
a Python float), gives congruence for function atoms for free (``exp(p)`` is keyed by the
normal form of ``p``) and hands small, flat terms to the solver.

Semantics are real arithmetic over the *exact rational values of the float constants*
appearing in the code; IEEE rounding is outside every claim (see DESIGN.md 1.1).
"""
from fractions import Fraction as Fr
import math
import numbers
import numpy as np
import z3

from . import ctx as _ctx


class SymError(Exception):
    """The engine cannot represent what the code under test asked for."""


# ---------------------------------------------------------------------------------
# lifting

def _fr(x):
    """Exact Fraction of a concrete real number, or None."""
    if isinstance(x, Fr):
        return x
    if isinstance(x, (bool, np.bool_)):
        return Fr(int(x))
    if isinstance(x, (int, np.integer)):
        return Fr(int(x))
    if isinstance(x, (float, np.floating)):
        x = float(x)
        if math.isnan(x) or math.isinf(x):
            raise SymError("non-finite constant %r meets a symbolic value" % x)
        return Fr(x)
    return None


def is_sym(x):
    return isinstance(x, (SymReal, SymComplex, SymBool))


def is_concrete_number(x):
    return isinstance(x, (numbers.Number, np.number, np.bool_)) and not is_sym(x)


# ---------------------------------------------------------------------------------
# polynomials: dict  monomial -> Fraction ; monomial = tuple of (atom_index, power)

ONE = ()


def _pmul_mono(m1, m2):
    if not m1:
        return m2
    if not m2:
        return m1
    d = dict(m1)
    for a, k in m2:
        d[a] = d.get(a, 0) + k
    c = _ctx._CUR[0]
    if c is not None and c.inv_pair:
        for a in list(d):
            b = c.inv_pair.get(a)
            if b is not None and a in d and b in d:
                k = min(d[a], d[b])
                for x in (a, b):
                    d[x] -= k
                    if d[x] == 0:
                        del d[x]
    return tuple(sorted(d.items()))


def _padd(p, q, sq=1):
    r = dict(p)
    for m, c in q.items():
        v = r.get(m, 0) + sq * c
        if v == 0:
            r.pop(m, None)
        else:
            r[m] = v
    return r


def _pscale(p, c):
    if c == 0:
        return {}
    return {m: v * c for m, v in p.items()}


MAX_TERMS = 6000


def _merge_exp(m):
    """exp(u)^a * exp(v)^b -> exp(a u + b v) inside one monomial."""
    c = _ctx._CUR[0]
    if c is None or len(m) < 1 or not c.merge_exp:
        return m, None
    ex_ = [(a, k) for a, k in m if c.atom_keys[a][0] == 'exp']
    if len(ex_) < 2 and not (len(ex_) == 1 and ex_[0][1] > 1):
        return m, None
    tot = {}
    for a, k in ex_:
        tot = _padd(tot, _pscale(dict(c.atom_keys[a][1]), Fr(k)))
    rest = tuple((a, k) for a, k in m if c.atom_keys[a][0] != 'exp')
    e = exp(SymReal(tot)) if tot else 1.0
    return rest, e


def _reduce_powers(r):
    """sqrt(q)^2 -> q   and   sin(t)^2 -> 1 - cos(t)^2  (canonical forms)."""
    c = _ctx._CUR[0]
    if c is None or not c.reduce_powers or not (c.fun_atoms.get('sqrt') or c.trig_atoms):
        return r
    for _ in range(8):
        hit = None
        for m in r:
            for (a, k) in m:
                if k >= 2 and c.atom_keys[a][0] in ('sqrt', 'sin'):
                    hit = (m, a, k)
                    break
            if hit:
                break
        if hit is None:
            return r
        m, a, k = hit
        co = r[m]
        rest = tuple((x, y) for x, y in m if x != a)
        if k - 2 > 0:
            rest = tuple(sorted(rest + ((a, k - 2),)))
        key = c.atom_keys[a]
        if key[0] == 'sqrt':
            sub = dict(key[1])
        else:
            ci = c.atom_by_key[('cos', key[1])]
            sub = {ONE: Fr(1), ((ci, 2),): Fr(-1)}
        r = dict(r)
        del r[m]
        r = _padd(r, _pmul_raw({rest: co}, sub))
    return r


def _pmul(p, q):
    r = _reduce_powers(_pmul_raw(p, q))
    c = _ctx._CUR[0]
    if c is None or not c.fun_atoms.get('exp'):
        return r
    out = {}
    changed = False
    for m, co in r.items():
        m2, e = _merge_exp(m)
        if e is None:
            v = out.get(m, 0) + co
            if v == 0:
                out.pop(m, None)
            else:
                out[m] = v
            continue
        changed = True
        term = {m2: co}
        term = _pmul_raw(term, lift(e).p)
        out = _padd(out, term)
    return out if changed else r


def _pmul_raw(p, q):
    if len(p) * len(q) > MAX_TERMS:
        # let-bind the larger factor to keep the normal form small
        if len(p) >= len(q):
            p = _letbind(p)
        else:
            q = _letbind(q)
        if len(p) * len(q) > MAX_TERMS:
            p = _letbind(p) if len(p) > 1 else p
            q = _letbind(q) if len(q) > 1 else q
    r = {}
    for m1, c1 in p.items():
        for m2, c2 in q.items():
            m = _pmul_mono(m1, m2)
            v = r.get(m, 0) + c1 * c2
            if v == 0:
                r.pop(m, None)
            else:
                r[m] = v
    return r


def _letbind(p):
    c = _ctx.cur()
    k = ('let', _pkey(p))
    idx = c.atom_by_key.get(k)
    if idx is None:
        v = c.fresh_real('let')
        idx = c.new_atom(v, k)
        c.add_axiom(v == _p_to_z3(p))
    return {((idx, 1),): Fr(1)}


def _pkey(p):
    return tuple(sorted(p.items()))


def _rv(c):
    c = Fr(c)
    if c.denominator == 1:
        return z3.RealVal(c.numerator)
    return z3.RealVal(str(c))


def _p_to_z3(p):
    c = _ctx.cur()
    if not p:
        return z3.RealVal(0)
    terms = []
    for m, co in sorted(p.items()):
        fs = []
        for a, k in m:
            e = c.atoms[a]
            for _ in range(k):
                fs.append(e)
        if not fs:
            terms.append(_rv(co))
        else:
            t = fs[0]
            for f in fs[1:]:
                t = t * f
            if co != 1:
                t = _rv(co) * t
            terms.append(t)
    if len(terms) == 1:
        return terms[0]
    return z3.Sum(terms)


# ---------------------------------------------------------------------------------

class SymBool:
    """A z3 Bool; the only place where control flow meets the solver is __bool__."""
    __slots__ = ('e',)
    __array_priority__ = 2000

    def __init__(self, e):
        self.e = e

    def __bool__(self):
        return _ctx.cur().decide(self.e)

    def __and__(self, o):
        return sb_and(self, o)
    __rand__ = __and__

    def __or__(self, o):
        return sb_or(self, o)
    __ror__ = __or__

    def __invert__(self):
        return sb_not(self)

    def __eq__(self, o):
        return mk_bool(self.e == b_z3(o))

    def __ne__(self, o):
        return mk_bool(self.e != b_z3(o))

    __hash__ = object.__hash__

    def __repr__(self):
        return "SymBool(%s)" % self.e


def mk_bool(e):
    if isinstance(e, (bool, np.bool_)):
        return bool(e)
    e = z3.simplify(e) if e.num_args() <= 2 and e.decl().kind() in (
        z3.Z3_OP_EQ, z3.Z3_OP_DISTINCT, z3.Z3_OP_NOT) else e
    if z3.is_true(e):
        return True
    if z3.is_false(e):
        return False
    return SymBool(e)


def b_z3(x):
    if isinstance(x, SymBool):
        return x.e
    if isinstance(x, (bool, np.bool_)):
        return z3.BoolVal(bool(x))
    if isinstance(x, z3.BoolRef):
        return x
    if is_concrete_number(x):
        return z3.BoolVal(bool(x))
    if isinstance(x, SymReal):
        return x.z3() != 0
    raise SymError("not a boolean: %r" % (x,))


def sb_and(*xs):
    es = []
    for x in xs:
        if isinstance(x, (bool, np.bool_)):
            if not x:
                return False
            continue
        es.append(b_z3(x))
    if not es:
        return True
    return mk_bool(z3.And(es)) if len(es) > 1 else mk_bool(es[0])


def sb_or(*xs):
    es = []
    for x in xs:
        if isinstance(x, (bool, np.bool_)):
            if x:
                return True
            continue
        es.append(b_z3(x))
    if not es:
        return False
    return mk_bool(z3.Or(es)) if len(es) > 1 else mk_bool(es[0])


def sb_not(x):
    if isinstance(x, (bool, np.bool_)):
        return not x
    return mk_bool(z3.Not(b_z3(x)))


# ---------------------------------------------------------------------------------

class SymReal:
    """Polynomial over atoms, optionally carrying a tangent (forward-mode dual number)."""
    __slots__ = ('p', 'd', '_z')
    __array_priority__ = 2000

    def __init__(self, p, d=None):
        self.p = p
        self.d = d
        self._z = None

    # ---- numpy protocol: any ufunc touching a SymReal is evaluated by the engine
    def __array_ufunc__(self, ufunc, method, *inputs, **kwargs):
        from .arr import sym_ufunc
        return sym_ufunc(ufunc, method, *inputs, **kwargs)

    # ---- conversions
    def z3(self):
        if self._z is None:
            self._z = _p_to_z3(self.p)
        return self._z

    def const(self):
        """Fraction if the polynomial is constant, else None."""
        if not self.p:
            return Fr(0)
        if len(self.p) == 1 and ONE in self.p:
            return self.p[ONE]
        return None

    def key(self):
        return _pkey(self.p)

    def __repr__(self):
        try:
            return "Sym(%s)" % z3.simplify(self.z3())
        except Exception:
            return "Sym(<%d terms>)" % len(self.p)

    def __float__(self):
        raise SymError("float() of a symbolic value: the code needs a concrete float "
                       "here (value %r)" % (self,))

    def __int__(self):
        return _ctx.cur().concretize_int(None, real=self.z3())

    def __index__(self):
        # an integer-valued term used where Python needs an int (range, indexing, shapes):
        # enumerate its feasible values (fork per value)
        return _ctx.cur().concretize_int(None, real=self.z3())

    def __bool__(self):
        return bool(self != 0)

    __hash__ = object.__hash__

    # ---- arithmetic (foreign operand types -> NotImplemented, so that e.g.
    # Signal.__rmul__ gets its turn for `k * signal`)
    def __add__(self, o):
        return add(self, o) if _num_like(o) else NotImplemented

    def __radd__(self, o):
        return add(o, self) if _num_like(o) else NotImplemented

    def __sub__(self, o):
        return sub(self, o) if _num_like(o) else NotImplemented

    def __rsub__(self, o):
        return sub(o, self) if _num_like(o) else NotImplemented

    def __mul__(self, o):
        return mul(self, o) if _num_like(o) else NotImplemented

    def __rmul__(self, o):
        return mul(o, self) if _num_like(o) else NotImplemented

    def __truediv__(self, o):
        return div(self, o) if _num_like(o) else NotImplemented

    def __rtruediv__(self, o):
        return div(o, self) if _num_like(o) else NotImplemented

    def __neg__(self):
        return mul(-1, self)

    def __pos__(self):
        return self

    def __abs__(self):
        return sabs(self)

    def __pow__(self, o):
        return power(self, o)

    def __rpow__(self, o):
        return power(o, self)

    def __mod__(self, o):
        return mod(self, o)

    def __rmod__(self, o):
        return mod(o, self)

    def __floordiv__(self, o):
        return floordiv(self, o)

    def __rfloordiv__(self, o):
        return floordiv(o, self)

    def __lt__(self, o):
        return cmp(self, o, '<')

    def __le__(self, o):
        return cmp(self, o, '<=')

    def __gt__(self, o):
        return cmp(self, o, '>')

    def __ge__(self, o):
        return cmp(self, o, '>=')

    def __eq__(self, o):
        return cmp(self, o, '==')

    def __ne__(self, o):
        return cmp(self, o, '!=')

    # attributes numpy code may touch on scalars
    @property
    def real(self):
        return self

    @property
    def imag(self):
        return 0.0

    def conjugate(self):
        return self

    conj = conjugate

    # numpy object-loop method dispatch (np.exp(obj) -> obj.exp())
    def sqrt(self):
        return sqrt(self)

    def exp(self):
        return exp(self)

    def log(self):
        return log(self)

    def log10(self):
        return log10(self)

    def sin(self):
        return sin(self)

    def cos(self):
        return cos(self)

    def tan(self):
        return tan(self)

    def arcsin(self):
        return arcsin(self)

    def arccos(self):
        return arccos(self)

    def arctan(self):
        return arctan(self)


def _num_like(o):
    return isinstance(o, (SymReal, SymComplex, numbers.Number, np.number, np.bool_, Fr)) or (
        isinstance(o, np.ndarray) and o.ndim == 0)


def _mk(p, d=None):
    """Normalise: a constant polynomial without tangent becomes a Python float."""
    if d is not None and not isinstance(d, SymReal):
        if d == 0:
            d = None
    if d is None:
        if not p:
            return 0.0
        if len(p) == 1 and ONE in p:
            c = p[ONE]
            if c.denominator == 1 and abs(c.numerator) < 2**53:
                return float(c.numerator)
            return float(c)
    return SymReal(p, d)


def lift(x):
    """-> SymReal (never collapses)."""
    if isinstance(x, SymReal):
        return x
    f = _fr(x)
    if f is None:
        raise TypeError("cannot lift %r (%s)" % (x, type(x)))
    return SymReal({ONE: f} if f != 0 else {})


def var(name, lo=None, hi=None, lo_strict=False, hi_strict=False):
    """Fresh (per path: named, hence stable across re-executions) real input."""
    c = _ctx.cur()
    v = z3.Real(name)
    idx = c.atom_by_key.get(('var', name))
    if idx is None:
        idx = c.new_atom(v, ('var', name))
        c.inputs[name] = ('real', v, lo, hi)
        if lo is not None:
            c.add_axiom(v > _rv(_fr(lo)) if lo_strict else v >= _rv(_fr(lo)))
        if hi is not None:
            c.add_axiom(v < _rv(_fr(hi)) if hi_strict else v <= _rv(_fr(hi)))
    return SymReal({((idx, 1),): Fr(1)})


def atom(expr, key=None):
    """SymReal for an arbitrary z3 Real expression (registered as an atom)."""
    c = _ctx.cur()
    if key is None:
        key = ('expr', expr.get_id())
    idx = c.atom_by_key.get(key)
    if idx is None:
        idx = c.new_atom(expr, key)
    return SymReal({((idx, 1),): Fr(1)})


def _tan_of(x):
    return x.d if isinstance(x, SymReal) else None


def _is_cplx(x):
    return isinstance(x, (SymComplex, complex, np.complexfloating))


def add(a, b):
    if _is_cplx(a) or _is_cplx(b):
        return cadd(a, b)
    a = lift(a)
    b = lift(b)
    d = None
    if a.d is not None or b.d is not None:
        d = add(a.d if a.d is not None else 0.0, b.d if b.d is not None else 0.0)
    return _mk(_padd(a.p, b.p), d)


def sub(a, b):
    if _is_cplx(a) or _is_cplx(b):
        return cadd(a, cneg(b))
    a = lift(a)
    b = lift(b)
    d = None
    if a.d is not None or b.d is not None:
        d = sub(a.d if a.d is not None else 0.0, b.d if b.d is not None else 0.0)
    return _mk(_padd(a.p, b.p, -1), d)


def mul(a, b):
    if _is_cplx(a) or _is_cplx(b):
        return cmul(a, b)
    a = lift(a)
    b = lift(b)
    d = None
    if a.d is not None or b.d is not None:
        a0 = SymReal(a.p)
        b0 = SymReal(b.p)
        d = add(mul(a.d if a.d is not None else 0.0, b0),
                mul(a0, b.d if b.d is not None else 0.0))
    ca = a.const()
    cb = b.const()
    if ca is not None:
        return _mk(_pscale(b.p, ca), d)
    if cb is not None:
        return _mk(_pscale(a.p, cb), d)
    return _mk(_pmul(a.p, b.p), d)


def inv(b):
    """1/b for symbolic b: atom r with r*b = 1 (side condition b != 0 is recorded)."""
    b = lift(b)
    cb = b.const()
    if cb is not None:
        if cb == 0:
            raise ZeroDivisionError("division by zero")
        return 1 / cb
    # factor out the content so that 1/(2x) and 1/x share an atom
    lead = b.p[min(b.p)]
    bn = SymReal(_pscale(b.p, 1 / lead))
    c = _ctx.cur()
    # single atom to a power: 1/(a^k) = (1/a)^k
    if len(bn.p) == 1:
        (m, co), = bn.p.items()
        if len(m) == 1 and co == 1 and m[0][1] >= 1:
            ai, k = m[0]
            base = SymReal({((ai, 1),): Fr(1)})
            r = _inv_atom(base)
            out = r
            for _ in range(k - 1):
                out = mul(out, r)
            return mul(out, 1 / lead)
    return mul(_inv_atom(bn), 1 / lead)


INV_INV = True


def _inv_atom(bn):
    c = _ctx.cur()
    # 1/exp(u) = exp(-u)
    if len(bn.p) == 1:
        (m, co), = bn.p.items()
        if len(m) == 1 and m[0][1] == 1 and co == 1 and c.atom_keys[m[0][0]][0] == 'exp':
            u = SymReal(dict(c.atom_keys[m[0][0]][1]))
            return lift(exp(mul(-1.0, u)))
        # 1/(1/b) = b   (b != 0 is the inner atom's own side condition)
        if INV_INV and len(m) == 1 and m[0][1] == 1 and co == 1 and c.atom_keys[m[0][0]][0] == 'inv':
            return SymReal(dict(c.atom_keys[m[0][0]][1]))
    k = ('inv', bn.key())
    idx = c.atom_by_key.get(k)
    if idx is None:
        # inverse of an inverse atom / of sqrt etc. is handled by the generic axiom
        v = c.fresh_real('inv')
        idx = c.new_atom(v, k)
        bz = SymReal(bn.p).z3()
        if c.check_div:
            # side obligation of every division: can the denominator be zero here?
            r, m = c._check(bz == 0)
            if r == 'sat':
                c.div_zero.append(m)
            elif r == 'unknown':
                c.notes.append('division-guard-unknown')
        c.add_axiom(v * bz == 1)
        c.div_guards.append(bz)
        c.inv_of[idx] = SymReal(bn.p)
        if len(bn.p) == 1:
            (m, co), = bn.p.items()
            if len(m) == 1 and m[0][1] == 1 and co == 1:
                c.inv_pair[m[0][0]] = idx
                c.inv_pair[idx] = m[0][0]
    return SymReal({((idx, 1),): Fr(1)})


def div(a, b):
    if _is_cplx(a) or _is_cplx(b):
        return cdiv(a, b)
    if isinstance(b, (float, np.floating)) and math.isinf(b) and isinstance(a, SymReal):
        return 0.0          # a symbolic value is a finite real: x / +-inf = 0
    fb = _fr(b) if not isinstance(b, SymReal) else b.const()
    if fb is not None and not (isinstance(b, SymReal) and b.d is not None):
        if fb == 0:
            if not isinstance(a, SymReal):
                return np.float64(a) / np.float64(0.0)
            c = _ctx.cur()
            if c.check_div:
                # numpy would produce inf/nan here: record the event as a finiteness
                # counterexample candidate and continue with an unconstrained value
                r, m = c._check()
                if r == 'sat':
                    c.div_zero.append(m)
                elif c.last_model is not None:
                    c.div_zero.append(c.last_model)
                return atom(c.fresh_real('nan'))
            raise ZeroDivisionError("symbolic value divided by zero")
        return mul(a, 1 / fb)
    a = lift(a)
    b = lift(b)
    r = inv(SymReal(b.p))
    q = mul(SymReal(a.p), r)
    d = None
    if a.d is not None or b.d is not None:
        # (a/b)' = a'/b - a b'/b^2
        t1 = mul(a.d if a.d is not None else 0.0, r)
        t2 = mul(mul(q, r), b.d if b.d is not None else 0.0)
        d = sub(t1, t2)
    if isinstance(q, SymReal):
        return _mk(q.p, d)
    return _mk(lift(q).p, d)


def clear_inverses(x, max_rounds=40):
    """Multiply a polynomial through by the denominators of its inverse atoms:
    returns (numerator, denominator_factors) with x == numerator / prod(den^k) and the
    numerator free of inverse atoms.  Exact (uses r*b = 1 for every inverse atom r of b)."""
    c = _ctx.cur()
    x = lift(x)
    p = dict(x.p)
    dens = []
    for _ in range(max_rounds):
        # pick an inverse atom occurring in p
        pick = None
        for m in p:
            for (a, k) in m:
                if c.atom_keys[a][0] == 'inv':
                    pick = a
                    break
            if pick is not None:
                break
        if pick is None:
            return SymReal(p), dens
        pw = max(k for m in p for (a, k) in m if a == pick)
        b = c.inv_of[pick]
        dens.append((b, pw))
        bp = {ONE: Fr(1)}
        pows = [bp]
        for _i in range(pw):
            bp = _pmul(bp, b.p)
            pows.append(bp)
        out = {}
        for m, co in p.items():
            q = 0
            rest = []
            for (a, k) in m:
                if a == pick:
                    q = k
                else:
                    rest.append((a, k))
            term = _pmul({tuple(rest): co}, pows[pw - q])
            out = _padd(out, term)
        p = out
    raise SymError("could not clear inverse atoms")


def cmp(a, b, op):
    if _is_cplx(a) or _is_cplx(b):
        if op == '==':
            return ceq(a, b)
        if op == '!=':
            return sb_not(ceq(a, b))
        raise TypeError("ordering of complex values")
    try:
        a = lift(a)
        b = lift(b)
    except TypeError:
        if op == '==':
            return False
        if op == '!=':
            return True
        return NotImplemented
    dp = _padd(a.p, b.p, -1)
    if not dp or (len(dp) == 1 and ONE in dp):
        c = dp.get(ONE, Fr(0))
        return {'<': c < 0, '<=': c <= 0, '>': c > 0, '>=': c >= 0,
                '==': c == 0, '!=': c != 0}[op]
    # normalise: positive leading coefficient halves the number of distinct atoms
    e = _p_to_z3(dp)
    z = z3.RealVal(0)
    r = {'<': e < z, '<=': e <= z, '>': e > z, '>=': e >= z,
         '==': e == z, '!=': e != z}[op]
    return SymBool(r)


def trunc_z3(e):
    """Python int(x): truncation toward zero, as a z3 Int term."""
    return z3.If(e >= 0, z3.ToInt(e), -z3.ToInt(-e))


def ite(c, a, b):
    """If-merge of two (possibly symbolic) reals."""
    if isinstance(c, (bool, np.bool_)):
        return a if c else b
    cx = _ctx._CUR[0]
    if cx is not None and cx.resolve_ite and isinstance(c, SymBool):
        # a condition already decided by the path condition selects its branch outright
        k = c.e.get_id()
        r = cx.ite_cache.get(k)
        if r is None:
            r1, _ = cx._check(z3.Not(c.e), light=True)
            if r1 == 'unsat':
                r = True
            else:
                r2, _ = cx._check(c.e, light=True)
                r = False if r2 == 'unsat' else 'both'
            cx.ite_cache[k] = r
        if r is True:
            return a
        if r is False:
            return b
    if _is_cplx(a) or _is_cplx(b):
        a = clift(a)
        b = clift(b)
        return cmk(ite(c, a.re, b.re), ite(c, a.im, b.im))
    if isinstance(a, (bool, np.bool_, SymBool)) and isinstance(b, (bool, np.bool_, SymBool)):
        return mk_bool(z3.If(b_z3(c), b_z3(a), b_z3(b)))
    la = lift(a)
    lb = lift(b)
    if la.key() == lb.key() and la.d is None and lb.d is None:
        return a
    e = z3.If(b_z3(c), la.z3(), lb.z3())
    d = None
    if la.d is not None or lb.d is not None:
        d = ite(c, la.d if la.d is not None else 0.0, lb.d if lb.d is not None else 0.0)
    r = atom(e)
    return _mk(r.p, d)


def sabs(a):
    if _is_cplx(a):
        return cabs(a)
    if not isinstance(a, SymReal):
        return abs(a)
    return ite(a >= 0, a, -a)


def smax(a, b):
    return ite(cmp(a, b, '>='), a, b)


def smin(a, b):
    return ite(cmp(a, b, '<='), a, b)


def sign(a):
    if not isinstance(a, SymReal):
        return np.sign(a)
    return ite(a > 0, 1.0, ite(a < 0, -1.0, 0.0))


def floor_real(a):
    """floor(a) as a real-valued SymReal (atom)."""
    a = lift(a)
    c = a.const()
    if c is not None:
        return float(math.floor(c))
    cx = _ctx.cur()
    key = ('floor', a.key())
    idx = cx.atom_by_key.get(key)
    if idx is None:
        k = cx.fresh_int('floor')
        kr = z3.ToReal(k)
        idx = cx.new_atom(kr, key)
        az = a.z3()
        cx.add_axiom(z3.And(kr <= az, az < kr + 1), heavy=False)
    return SymReal({((idx, 1),): Fr(1)})


def mod(a, b):
    """Python float %: a - b*floor(a/b)."""
    if not isinstance(a, SymReal) and not isinstance(b, SymReal):
        return a % b
    q = floor_real(div(a, b))
    return sub(a, mul(b, q))


def floordiv(a, b):
    if not isinstance(a, SymReal) and not isinstance(b, SymReal):
        return a // b
    return floor_real(div(a, b))


def power(a, b):
    if _is_cplx(a) or _is_cplx(b):
        bb = _fr(b)
        if bb is not None and bb.denominator == 1 and bb >= 0:
            r = 1.0
            for _ in range(int(bb)):
                r = cmul(r, a)
            return r
        raise SymError("complex power")
    fb = _fr(b) if not isinstance(b, SymReal) else b.const()
    if fb is not None and (not isinstance(b, SymReal) or b.d is None):
        if not isinstance(a, SymReal):
            return float(a) ** float(fb)
        if fb.denominator == 1:
            k = int(fb)
            if k >= 0:
                r = 1.0
                base = a
                # square-and-multiply keeps tangent handling inside mul()
                while k:
                    if k & 1:
                        r = mul(r, base)
                    k >>= 1
                    if k:
                        base = mul(base, base)
                return r
            return div(1.0, power(a, -k))
        if fb == Fr(1, 2):
            return sqrt(a)
        if fb == Fr(-1, 2):
            return div(1.0, sqrt(a))
        if fb == Fr(3, 2):
            return mul(a, sqrt(a))
        if fb == Fr(-3, 2):
            return div(1.0, mul(a, sqrt(a)))
        if fb == Fr(5, 2):
            return mul(mul(a, a), sqrt(a))
        # general real exponent: exp(b log a)   (a > 0 is recorded as a guard)
        return exp(mul(float(fb), log(a)))
    # symbolic exponent
    fa = _fr(a) if not isinstance(a, SymReal) else a.const()
    if fa is not None:
        if fa <= 0:
            raise SymError("non-positive base with symbolic exponent")
        return exp(mul(b, math.log(fa)))
    return exp(mul(b, log(a)))


# ---------------------------------------------------------------------------------
# algebraic / transcendental function atoms

def _fun_atom(name, arg, build):
    """Atom for name(arg), congruent on the normal form of arg. build(v, argz) adds axioms."""
    c = _ctx.cur()
    k = (name, arg.key())
    idx = c.atom_by_key.get(k)
    if idx is None:
        v = c.fresh_real(name)
        idx = c.new_atom(v, k)
        c.fun_atoms.setdefault(name, []).append((idx, SymReal(arg.p)))
        build(v, SymReal(arg.p).z3(), idx)
    return SymReal({((idx, 1),): Fr(1)})


def sqrt(a):
    if _is_cplx(a):
        raise SymError("complex sqrt")
    if not isinstance(a, SymReal):
        return np.sqrt(a)
    c = _ctx.cur()
    a0 = SymReal(a.p)
    # canonical radicand: pull out the common monomial factor with even powers and the
    # magnitude of the leading coefficient:  sqrt(k m^2 q) = sqrt(k) |m| sqrt(q)
    if len(a0.p) >= 2:
        common = None
        for m in a0.p:
            d = dict(m)
            common = d if common is None else {x: min(k, d.get(x, 0)) for x, k in common.items()
                                               if d.get(x, 0) > 0}
            if not common:
                break
        even = {x: (k // 2) * 2 for x, k in (common or {}).items() if k >= 2}
        lead = abs(a0.p[min(a0.p)])
        if _frsqrt(lead) is None:
            lead = Fr(1)          # only an exact rational square is pulled out
        if even or lead != 1:
            q = {}
            for m, co in a0.p.items():
                d = dict(m)
                for x, k in even.items():
                    d[x] -= k
                    if d[x] == 0:
                        del d[x]
                q[tuple(sorted(d.items()))] = co / lead
            root = sqrt(SymReal(q)) if not (len(q) == 1 and ONE in q) else math.sqrt(q[ONE])
            fac = math.sqrt(lead) if _frsqrt(lead) is None else float(_frsqrt(lead))
            out = mul(root, fac)
            for x, k in even.items():
                base = SymReal({((x, 1),): Fr(1)})
                ab = sabs(base)
                for _ in range(k // 2):
                    out = mul(out, ab)
            if a.d is not None:
                out = lift(out)
                return _mk(out.p, div(a.d, mul(2.0, SymReal(out.p))))
            return out
    # sqrt(k^2 * q) = k sqrt(q): pull a rational square content out when trivial
    # perfect square of a single atom?  sqrt(x^2) = |x|
    if len(a0.p) == 1:
        (m, co), = a0.p.items()
        if m and all(k % 2 == 0 for _, k in m) and co > 0:
            rt = _frsqrt(co)
            if rt is not None:
                base = SymReal({tuple((ai, k // 2) for ai, k in m): Fr(1)})
                r = mul(sabs(base), float(rt) if rt.denominator != 1 else rt.numerator)
                if a.d is not None:
                    r = lift(r)
                    return _mk(r.p, div(a.d, mul(2.0, SymReal(r.p))))
                return r

    def build(v, az, idx):
        c.add_axiom(v * v == az)
        c.add_axiom(v >= 0)
        c.sqrt_guards.append(az)
        # product lemma: sqrt(x)sqrt(y) = sqrt(xy) for radicands already on the path
        me = SymReal(a0.p)
        for (j, other) in c.fun_atoms.get('sqrt', []):
            if j == idx:
                continue
            try:
                prod = mul(me, other)
            except SymError:
                continue
            if isinstance(prod, SymReal):
                kk = ('sqrt', prod.key())
                pi = c.atom_by_key.get(kk)
                if pi is not None:
                    c.add_axiom(v * c.atoms[j] == c.atoms[pi])
        # and is this radicand the product of two existing ones?
        lst = c.fun_atoms.get('sqrt', [])
        for x in range(len(lst)):
            for y in range(x, len(lst)):
                jx, px = lst[x]
                jy, py = lst[y]
                if jx == idx or jy == idx:
                    continue
                if len(px.p) * len(py.p) > 400:
                    continue
                prod = mul(px, py)
                if isinstance(prod, SymReal) and prod.key() == me.key():
                    c.add_axiom(c.atoms[jx] * c.atoms[jy] == v)
    r = _fun_atom('sqrt', a0, build)
    if a.d is not None:
        return _mk(r.p, div(a.d, mul(2.0, r)))
    return r


def _frsqrt(co):
    n = math.isqrt(co.numerator)
    d = math.isqrt(co.denominator)
    if n * n == co.numerator and d * d == co.denominator:
        return Fr(n, d)
    return None


def exp(a):
    if _is_cplx(a):
        a = clift(a)
        m = exp(a.re)
        return cmk(mul(m, cos(a.im)), mul(m, sin(a.im)))
    if not isinstance(a, SymReal):
        return np.exp(a)
    c = _ctx.cur()
    a0 = SymReal(a.p)
    # exp(log(x)) = x   and exp(k*log(x)+rest)
    la = c.log_arg_of_poly(a0)
    if la is not None:
        r = la
    else:
        def build(v, az, idx):
            for (xc, yc) in c.exp_points:
                _exp_point_axiom(c, v, az, xc, yc)
            for (j, larg) in c.fun_atoms.get('log', []):
                _log_exp_cross(c, c.atoms[j], larg.z3(), v, az)
            c.add_axiom(v > 0)
            # exp(u) >= 1 + u (tangent at 0), cheap and often enough
            c.add_axiom(v >= 1 + az)
            c.add_axiom(z3.Implies(az < 0, v < 1))
            c.add_axiom(z3.Implies(az == 0, v == 1))
            # e^u (1-u) <= 1 for every real u: with the tangent this pins e^u near u = 0
            c.add_axiom(v * (1 - az) <= 1)
            for (j, other) in c.fun_atoms.get('exp', []):
                if j == idx:
                    continue
                oz = other.z3()
                w = c.atoms[j]
                c.add_axiom(z3.And(z3.Implies(az < oz, v < w), z3.Implies(az > oz, v > w),
                                   z3.Implies(az == oz, v == w)))
                # tangent lines between the two points (convexity): nonlinear, on request
                if getattr(c, 'exp_tangents', False):
                    c.add_axiom(v >= w * (1 + az - oz))
                    c.add_axiom(w >= v * (1 + oz - az))
        r = _fun_atom('exp', a0, build)
    if a.d is not None:
        r = lift(r)
        return _mk(r.p, mul(SymReal(r.p), a.d))
    return r


def _log_exp_cross(c, L, X, V, u):
    """L = log(X), V = exp(u):  X <=> V decides L <=> u (log is the inverse of exp)."""
    c.add_axiom(z3.Implies(X > 0, z3.And(z3.Implies(X < V, L < u), z3.Implies(X > V, L > u),
                                        z3.Implies(X == V, L == u))))


def _exp_point_axiom(c, v, az, xc, yc, tangent=False):
    """Monotonicity against a concrete point (x_c, fl(exp x_c)); 4 ulp slack for libm."""
    xz = _rv(Fr(xc))
    lo = _rv(Fr(yc) * (1 - Fr(1, 2 ** 50)))
    hi = _rv(Fr(yc) * (1 + Fr(1, 2 ** 50)))
    c.add_axiom(z3.And(z3.Implies(az <= xz, v <= hi), z3.Implies(az >= xz, v >= lo)))
    d = Fr(1, 10 ** 6)
    c.add_axiom(z3.And(z3.Implies(az <= _rv(Fr(xc) + d), v <= _rv(Fr(yc) * (1 + 2 * d))),
                       z3.Implies(az >= _rv(Fr(xc) - d), v >= _rv(Fr(yc) * (1 - 2 * d)))))
    if tangent:
        # convexity: the tangent at the point lies below the graph everywhere (linear)
        c.add_axiom(v >= lo * (1 + az - xz))


def note_exp_point(x, y, force=False):
    """Called by the numpy shim when exp() is evaluated on a concrete argument."""
    c = _ctx._CUR[0]
    if c is None:
        return
    try:
        x = float(x)
        y = float(y)
    except (TypeError, ValueError):
        return
    if not (math.isfinite(x) and math.isfinite(y)) or y <= 0:
        return
    if any(abs(x - xc) <= 1e-300 for xc, _ in c.exp_points) or len(c.exp_points) > (
            80 if force else 40):
        return False
    c.exp_points.append((x, y))
    for (idx, arg) in c.fun_atoms.get('exp', []):
        _exp_point_axiom(c, c.atoms[idx], arg.z3(), x, y, tangent=force)
    # the same point constrains log atoms: log(t) vs x at t = y
    for (idx, arg) in c.fun_atoms.get('log', []):
        _log_point_axiom(c, c.atoms[idx], arg.z3(), y, x, tangent=force)
    return True


def _log_point_axiom(c, v, az, tc, lc, tangent=False):
    tz_lo = _rv(Fr(tc) * (1 - Fr(1, 2 ** 50)))
    tz_hi = _rv(Fr(tc) * (1 + Fr(1, 2 ** 50)))
    lz = _rv(Fr(lc))
    c.add_axiom(z3.And(z3.Implies(z3.And(az > 0, az <= tz_lo), v <= lz),
                       z3.Implies(az >= tz_hi, v >= lz)))
    # continuity slack: within a relative 1e-9 of the point the value is within 2e-9
    d = Fr(1, 10 ** 7)
    c.add_axiom(z3.And(z3.Implies(az >= _rv(Fr(tc) * (1 - d)), v >= _rv(Fr(lc) - 2 * d)),
                       z3.Implies(z3.And(az > 0, az <= _rv(Fr(tc) * (1 + d))),
                                  v <= _rv(Fr(lc) + 2 * d))))
    if tangent:
        # concavity: the tangent at the point lies above the graph (linear)
        c.add_axiom(z3.Implies(az > 0, v <= _rv(Fr(lc) + 2 * d) + az * _rv(1 / Fr(tc)) - 1))


def log(a):
    if not isinstance(a, SymReal):
        return np.log(a)
    c = _ctx.cur()
    a0 = SymReal(a.p)
    # log(exp(u)) = u
    if len(a0.p) == 1:
        (m, co), = a0.p.items()
        if len(m) == 1 and m[0][1] == 1 and co > 0:
            key = c.atom_keys[m[0][0]]
            if key[0] == 'exp':
                u = SymReal(dict(key[1]))
                r = add(u, math.log(co)) if co != 1 else u
                if a.d is not None:
                    r = lift(r)
                    return _mk(r.p, div(a.d, a0))
                return r

    def build(v, az, idx):
        for (j, earg) in c.fun_atoms.get('exp', []):
            _log_exp_cross(c, v, az, c.atoms[j], earg.z3())
        c.log_guards.append(az)
        for (xc, yc) in c.exp_points:
            _log_point_axiom(c, v, az, yc, xc)
        c.add_axiom(z3.Implies(az > 0, v <= az - 1))
        c.add_axiom(z3.Implies(az > 1, v > 0))
        c.add_axiom(z3.Implies(z3.And(az > 0, az < 1), v < 0))
        c.add_axiom(z3.Implies(az == 1, v == 0))
        for (j, other) in c.fun_atoms.get('log', []):
            if j == idx:
                continue
            oz = other.z3()
            w = c.atoms[j]
            c.add_axiom(z3.Implies(z3.And(az > 0, oz > 0),
                                   z3.And(z3.Implies(az < oz, v < w), z3.Implies(az > oz, v > w),
                                          z3.Implies(az == oz, v == w))))
    r = _fun_atom('log', a0, build)
    c.log_atom_arg[_single_atom_index(r)] = a0
    if a.d is not None:
        return _mk(r.p, div(a.d, a0))
    return r


def _single_atom_index(r):
    (m, co), = r.p.items()
    return m[0][0]


LN10 = math.log(10.0)


def log10(a):
    if not isinstance(a, SymReal):
        return np.log10(a)
    return div(log(a), LN10)


def _angle_parts(a):
    """Split an angle polynomial into (const, [(coef, atom_poly)...]) if it is linear in
    single atoms with integer coefficients; else None."""
    c0 = Fr(0)
    parts = []
    for m, co in a.p.items():
        if m == ONE:
            c0 = co
        elif len(m) == 1 and m[0][1] == 1 and abs(co) <= 4.5 and \
                abs(co - round(co)) <= Fr(1, 10 ** 12) and round(co) != 0:
            # integer multiple of an angle atom (a coefficient within 1e-12 of an integer,
            # e.g. (1/(2 pi)) * (2 pi) in float, is snapped)
            parts.append((int(round(co)), m[0][0]))
        else:
            return None
    return c0, parts


def _snap_trig(x):
    """cos, sin of a concrete angle; multiples of pi/2 are snapped to exact values."""
    x = float(x)
    q = x / (math.pi / 2)
    if abs(q - round(q)) < 1e-12 and abs(q) < 1e6:
        k = int(round(q)) % 4
        return [(1.0, 0.0), (0.0, 1.0), (-1.0, 0.0), (0.0, -1.0)][k]
    return math.cos(x), math.sin(x)


def cossin(a):
    """(cos a, sin a) with angle-addition expansion over angle atoms."""
    if not isinstance(a, SymReal):
        return _snap_trig(a)
    c = _ctx.cur()
    a0 = SymReal(a.p)
    parts = _angle_parts(a0)
    if parts is None or (len(parts[1]) == 1 and parts[0] == 0 and parts[1][0][0] == 1
                         and c.angle_info.get(parts[1][0][1]) is None):
        cs = _trig_atoms(a0)
    else:
        c0, lst = parts
        cs = _snap_trig(c0)
        for (k, ai) in lst:
            base = SymReal({((ai, 1),): Fr(1)})
            info = c.angle_info.get(ai)
            if info is not None:
                bc, bs = info
            else:
                bc, bs = _trig_atoms(base)
            kk = abs(k)
            pc, ps = bc, bs
            for _ in range(kk - 1):
                pc, ps = sub(mul(pc, bc), mul(ps, bs)), add(mul(ps, bc), mul(pc, bs))
            if k < 0:
                ps = mul(-1.0, ps)
            cs = (sub(mul(cs[0], pc), mul(cs[1], ps)), add(mul(cs[1], pc), mul(cs[0], ps)))
    if a.d is not None:
        co, si = lift(cs[0]), lift(cs[1])
        return (_mk(co.p, mul(mul(-1.0, SymReal(si.p)), a.d)),
                _mk(si.p, mul(SymReal(co.p), a.d)))
    return cs


def _trig_atoms(a0):
    c = _ctx.cur()
    k = ('cos', a0.key())
    if k in c.atom_by_key:
        ci = c.atom_by_key[k]
        si = c.atom_by_key[('sin', a0.key())]
    else:
        # cos(-x) = cos(x), sin(-x) = -sin(x): share atoms with the negated angle
        neg = SymReal(_pscale(a0.p, -1))
        if ('cos', neg.key()) in c.atom_by_key:
            ci = c.atom_by_key[('cos', neg.key())]
            si = c.atom_by_key[('sin', neg.key())]
            return (SymReal({((ci, 1),): Fr(1)}), SymReal({((si, 1),): Fr(-1)}))
        cv = c.fresh_real('cos')
        sv = c.fresh_real('sin')
        ci = c.new_atom(cv, k)
        si = c.new_atom(sv, ('sin', a0.key()))
        c.add_axiom(cv * cv + sv * sv == 1)
        c.add_axiom(z3.And(cv >= -1, cv <= 1, sv >= -1, sv <= 1))
        az = a0.z3()
        HP = _rv(Fr(math.pi / 2))
        PI = _rv(Fr(math.pi))
        # sign information on the principal ranges (sound one-directional facts; the
        # float value of pi stands for pi: the 1e-16 sliver is below every tolerance)
        c.add_axiom(z3.Implies(z3.And(az > 0, az < PI), sv > 0))
        c.add_axiom(z3.Implies(z3.And(az > -PI, az < 0), sv < 0))
        c.add_axiom(z3.Implies(z3.And(az > -HP, az < HP), cv > 0))
        c.add_axiom(z3.Implies(z3.And(az > HP, az < 3 * HP), cv < 0))
        c.add_axiom(z3.Implies(az == 0, z3.And(cv == 1, sv == 0)))
        c.trig_atoms.append((a0, ci, si))
        for x in c.trig_points:
            _trig_point_axioms(c, az, cv, sv, x)
        # an *input* angle: remember its circle point so that a model's (cos, sin) - which
        # is what every computation used - determines the replayed angle value
        if len(a0.p) == 1:
            (m, co), = a0.p.items()
            if len(m) == 1 and m[0][1] == 1 and co == 1 and c.atom_keys[m[0][0]][0] == 'var':
                nm_ = c.atom_keys[m[0][0]][1]
                c.angle_inputs[nm_] = (cv, sv)
                # tie the circle point to the declared range of the angle
                kind_, v_, lo_, hi_ = c.inputs.get(nm_, (None, None, None, None))
                for bnd in (lo_, hi_):
                    if bnd is not None and abs(float(bnd)) <= 2 * math.pi:
                        _trig_point_axioms(c, az, cv, sv, float(bnd))
    return (SymReal({((ci, 1),): Fr(1)}), SymReal({((si, 1),): Fr(1)}))


def _trig_point_axioms(c, az, cv, sv, x):
    HP = _rv(Fr(math.pi / 2))
    PI = _rv(Fr(math.pi))
    xz = _rv(Fr(x))
    e = Fr(1, 10 ** 12)
    sx = Fr(math.sin(x))
    cx = Fr(math.cos(x))
    if -math.pi / 2 <= x <= math.pi / 2:
        c.add_axiom(z3.And(
            z3.Implies(z3.And(az >= -HP, az <= xz), sv <= _rv(sx + e)),
            z3.Implies(z3.And(az >= xz, az <= HP), sv >= _rv(sx - e))))
    if 0 <= x <= math.pi:
        c.add_axiom(z3.And(
            z3.Implies(z3.And(az >= 0, az <= xz), cv >= _rv(cx - e)),
            z3.Implies(z3.And(az >= xz, az <= PI), cv <= _rv(cx + e))))


def note_trig_point(x):
    """sin is increasing on [-pi/2, pi/2], cos decreasing on [0, pi]: compare every trig atom
    with the concrete point x (1e-12 slack for libm)."""
    c = _ctx._CUR[0]
    if c is None:
        return
    x = float(x)
    c.trig_points.append(x)
    for (a0, ci, si) in c.trig_atoms:
        _trig_point_axioms(c, a0.z3(), c.atoms[ci], c.atoms[si], x)


def cos(a):
    if _is_cplx(a):
        raise SymError("complex cos")
    if not isinstance(a, SymReal):
        return np.cos(a)
    return cossin(a)[0]


def sin(a):
    if _is_cplx(a):
        raise SymError("complex sin")
    if not isinstance(a, SymReal):
        return np.sin(a)
    return cossin(a)[1]


def tan(a):
    if not isinstance(a, SymReal):
        return np.tan(a)
    co, si = cossin(a)
    return div(si, co)


def _angle_atom(name, key, cosv, sinv, lo, hi, tangent=None, src=None):
    """An angle atom whose cos/sin are known expressions (a point on the unit circle)."""
    c = _ctx.cur()
    k = (name, key)
    idx = c.atom_by_key.get(k)
    if idx is None:
        v = c.fresh_real(name)
        idx = c.new_atom(v, k)
        c.angle_info[idx] = (cosv, sinv)
        if lo is not None:
            c.add_axiom(v >= _rv(Fr(lo)))
        if hi is not None:
            c.add_axiom(v <= _rv(Fr(hi)))
    r = SymReal({((idx, 1),): Fr(1)})
    return r


def arccos(x):
    if not isinstance(x, SymReal):
        return np.arccos(x)
    x0 = SymReal(x.p)
    s = sqrt(sub(1.0, mul(x0, x0)))
    c = _ctx.cur()
    c.domain_guards.append(('arccos', x0.z3()))
    r = _angle_atom('acos', x0.key(), x0, s, 0.0, math.pi)
    # ordering facts: arccos is strictly decreasing; endpoints
    _angle_order(r, x0, 'acos')
    if x.d is not None:
        return _mk(r.p, mul(-1.0, div(x.d, s)))
    return r


def arcsin(x):
    if not isinstance(x, SymReal):
        return np.arcsin(x)
    x0 = SymReal(x.p)
    s = sqrt(sub(1.0, mul(x0, x0)))
    c = _ctx.cur()
    c.domain_guards.append(('arcsin', x0.z3()))
    r = _angle_atom('asin', x0.key(), s, x0, -math.pi / 2, math.pi / 2)
    _angle_order(r, x0, 'asin')
    if x.d is not None:
        return _mk(r.p, div(x.d, s))
    return r


def _angle_order(r, x0, name):
    c = _ctx.cur()
    idx = _single_atom_index(r)
    lst = c.fun_atoms.setdefault(name + '_ord', [])
    if any(j == idx for j, _ in lst):
        return
    v = c.atoms[idx]
    xz = x0.z3()
    HP = _rv(Fr(math.pi / 2))
    if name == 'acos':
        c.add_axiom(z3.Implies(xz > 0, v < HP))
        c.add_axiom(z3.Implies(xz < 0, v > HP))
        c.add_axiom(z3.Implies(xz == 0, v == HP))
        c.add_axiom(z3.Implies(xz == 1, v == 0))
        c.add_axiom(z3.Implies(xz < 1, v > 0))
        c.add_axiom(z3.Implies(xz > -1, v < _rv(Fr(math.pi))))
    else:
        c.add_axiom(z3.Implies(xz > 0, v > 0))
        c.add_axiom(z3.Implies(xz < 0, v < 0))
        c.add_axiom(z3.Implies(xz == 0, v == 0))
        c.add_axiom(z3.Implies(xz < 1, v < HP))
        c.add_axiom(z3.Implies(xz > -1, v > -HP))
    for (j, other) in lst:
        w = c.atoms[j]
        oz = other.z3()
        if name == 'acos':
            c.add_axiom(z3.And(z3.Implies(xz < oz, v > w), z3.Implies(xz > oz, v < w),
                               z3.Implies(xz == oz, v == w)))
        else:
            c.add_axiom(z3.And(z3.Implies(xz < oz, v < w), z3.Implies(xz > oz, v > w),
                               z3.Implies(xz == oz, v == w)))
    lst.append((idx, x0))


def arctan2(y, x):
    if not isinstance(y, SymReal) and not isinstance(x, SymReal):
        return np.arctan2(y, x)
    y0 = lift(y)
    x0 = lift(x)
    y0 = SymReal(y0.p)
    x0 = SymReal(x0.p)
    rho = sqrt(add(mul(x0, x0), mul(y0, y0)))
    c = _ctx.cur()
    c.domain_guards.append(('arctan2-nonzero', lift(rho).z3()))
    r = _angle_atom('atan2', (y0.key(), x0.key()), div(x0, rho), div(y0, rho),
                    -math.pi, math.pi)
    idx = _single_atom_index(r)
    if idx not in c.atan2_done:
        c.atan2_done.add(idx)
        v = c.atoms[idx]
        yz, xz = y0.z3(), x0.z3()
        HP = _rv(Fr(math.pi / 2))
        c.add_axiom(z3.Implies(yz > 0, v > 0))
        c.add_axiom(z3.Implies(yz < 0, v < 0))
        c.add_axiom(z3.Implies(z3.And(yz == 0, xz > 0), v == 0))
        c.add_axiom(z3.Implies(z3.And(yz == 0, xz < 0), v == _rv(Fr(math.pi))))
        c.add_axiom(z3.Implies(xz > 0, z3.And(v > -HP, v < HP)))
        c.add_axiom(z3.Implies(z3.And(xz == 0, yz > 0), v == HP))
        c.add_axiom(z3.Implies(z3.And(xz == 0, yz < 0), v == -HP))
    return r


def arctan(x):
    if not isinstance(x, SymReal):
        return np.arctan(x)
    x0 = SymReal(x.p)
    rho = sqrt(add(1.0, mul(x0, x0)))
    r = _angle_atom('atan', x0.key(), div(1.0, rho), div(x0, rho), -math.pi / 2, math.pi / 2)
    c = _ctx.cur()
    idx = _single_atom_index(r)
    if idx not in c.atan2_done:
        c.atan2_done.add(idx)
        v = c.atoms[idx]
        xz = x0.z3()
        c.add_axiom(z3.Implies(xz > 0, v > 0))
        c.add_axiom(z3.Implies(xz < 0, v < 0))
        c.add_axiom(z3.Implies(xz == 0, v == 0))
    if x.d is not None:
        return _mk(r.p, div(x.d, add(1.0, mul(x0, x0))))
    return r


def dual(x, dx=1.0):
    """Attach a tangent to x (forward-mode AD seed)."""
    x = lift(x)
    return SymReal(x.p, lift(dx) if not isinstance(dx, SymReal) else dx)


def tangent(x):
    """Derivative part of a value computed from dual inputs (0.0 if none)."""
    if isinstance(x, SymReal) and x.d is not None:
        d = x.d
        if isinstance(d, SymReal):
            return _mk(d.p, d.d)
        return d
    return 0.0


def primal(x):
    if isinstance(x, SymReal):
        return _mk(x.p)
    return x


# ---------------------------------------------------------------------------------
# complex numbers as pairs

class SymComplex:
    __slots__ = ('re', 'im')
    __array_priority__ = 2000

    def __init__(self, re, im):
        self.re = re
        self.im = im

    def __array_ufunc__(self, ufunc, method, *inputs, **kwargs):
        from .arr import sym_ufunc
        return sym_ufunc(ufunc, method, *inputs, **kwargs)

    @property
    def real(self):
        return self.re

    @property
    def imag(self):
        return self.im

    def conjugate(self):
        return cmk(self.re, mul(-1.0, self.im))

    conj = conjugate

    def __add__(self, o):
        return cadd(self, o)

    __radd__ = __add__

    def __sub__(self, o):
        return cadd(self, cneg(o))

    def __rsub__(self, o):
        return cadd(o, cneg(self))

    def __mul__(self, o):
        return cmul(self, o)

    __rmul__ = __mul__

    def __truediv__(self, o):
        return cdiv(self, o)

    def __rtruediv__(self, o):
        return cdiv(o, self)

    def __neg__(self):
        return cneg(self)

    def __abs__(self):
        return cabs(self)

    def __pow__(self, o):
        return power(self, o)

    def __eq__(self, o):
        return ceq(self, o)

    def __ne__(self, o):
        return sb_not(ceq(self, o))

    __hash__ = object.__hash__

    def __complex__(self):
        raise SymError("complex() of a symbolic value")

    def __float__(self):
        raise SymError("float() of a symbolic complex value")

    def __repr__(self):
        return "SymComplex(%r, %r)" % (self.re, self.im)

    def exp(self):
        return exp(self)

    def sqrt(self):
        raise SymError("complex sqrt")


def clift(x):
    if isinstance(x, SymComplex):
        return x
    if isinstance(x, (complex, np.complexfloating)):
        return SymComplex(float(x.real), float(x.imag))
    return SymComplex(x, 0.0)


def cmk(re, im):
    """Keep the pair form (callers that need a real use .real explicitly)."""
    if not isinstance(re, SymReal) and not isinstance(im, SymReal):
        return complex(float(re), float(im))
    return SymComplex(re, im)


def cadd(a, b):
    a = clift(a)
    b = clift(b)
    return cmk(add(a.re, b.re), add(a.im, b.im))


def cneg(a):
    a = clift(a)
    return cmk(mul(-1.0, a.re), mul(-1.0, a.im))


def cmul(a, b):
    if not _is_cplx(a):
        b = clift(b)
        return cmk(mul(a, b.re), mul(a, b.im))
    if not _is_cplx(b):
        a = clift(a)
        return cmk(mul(a.re, b), mul(a.im, b))
    a = clift(a)
    b = clift(b)
    return cmk(sub(mul(a.re, b.re), mul(a.im, b.im)), add(mul(a.re, b.im), mul(a.im, b.re)))


def cdiv(a, b):
    if not _is_cplx(b):
        a = clift(a)
        return cmk(div(a.re, b), div(a.im, b))
    b = clift(b)
    den = add(mul(b.re, b.re), mul(b.im, b.im))
    num = cmul(a, cmk(b.re, mul(-1.0, b.im)))
    num = clift(num)
    return cmk(div(num.re, den), div(num.im, den))


def cabs2(a):
    a = clift(a)
    return add(mul(a.re, a.re), mul(a.im, a.im))


def cabs(a):
    return sqrt(cabs2(a))


def ceq(a, b):
    a = clift(a)
    b = clift(b)
    return sb_and(cmp(a.re, b.re, '=='), cmp(a.im, b.im, '=='))


def real_of(x):
    if isinstance(x, SymComplex):
        return x.re
    if isinstance(x, (complex, np.complexfloating)):
        return float(x.real)
    return x


def imag_of(x):
    if isinstance(x, SymComplex):
        return x.im
    if isinstance(x, (complex, np.complexfloating)):
        return float(x.imag)
    return 0.0
