"""check runner: `python -m symx.run C05 --tier quick`  (see /verif/check).

Exit codes: 0 held on everything explored (KNOWN-FINDING lines allowed);
1 + `VIOLATION property=<id> replay=<path>` for an unlisted reproduced violation;
2 harness error (required obligation inconclusive, broken twin, engine error).
"""
import argparse
import hashlib
import importlib
import inspect
import json
import multiprocessing as mp
import os
import re
import sys
import time
import traceback

VERIF = os.path.dirname(os.path.dirname(os.path.abspath(__file__)))
REPO = os.environ.get('PYREX_REPO', '/repo')


def _setup_paths():
    sys.dont_write_bytecode = True
    sys.set_int_max_str_digits(0)
    if REPO not in sys.path:
        sys.path.insert(0, REPO)
    if VERIF not in sys.path:
        sys.path.insert(0, VERIF)
    os.environ.setdefault('PYREX_VERIF', '1')


def load_harnesses(pid):
    mod = importlib.import_module('harness.%s' % pid)
    return mod, {h.name: h for h in mod.HARNESSES}


def _job(spec):
    pid, hname, case, twin, tier, seed, budget = spec
    _setup_paths()
    try:
        from symx import explore
        mod, hs = load_harnesses(pid)
        h = hs[hname]
        return explore.run_case(h, case, twin, tier, seed, budget)
    except BaseException as e:
        return {'harness': hname, 'case': case, 'twin': twin, 'fatal': '%s: %s' % (
            type(e).__name__, e), 'tb': traceback.format_exc(limit=10)}


MEM_LIMIT = 7 * 1024 ** 3      # address space per job (a fresh job maps ~2.4 GB)


def _child(conn, spec):
    try:
        import resource
        resource.setrlimit(resource.RLIMIT_AS, (MEM_LIMIT, MEM_LIMIT))
    except Exception:
        pass
    try:
        r = _job(spec)
    except BaseException as e:
        r = {'harness': spec[1], 'case': spec[2], 'twin': spec[3], 'fatal': repr(e), 'tb': ''}
    try:
        conn.send(r)
    except Exception as e:
        conn.send({'harness': spec[1], 'case': spec[2], 'twin': spec[3],
                   'fatal': 'result not picklable: %r' % e, 'tb': ''})
    conn.close()


def run_jobs(jobs, njobs, hs, tier):
    """One process per job with a hard wall-clock kill (z3 does not always honour its own
    timeout inside nlsat); a killed job is reported as not exhausted = inconclusive."""
    ctxm = mp.get_context('fork')
    pending = list(jobs)
    running = []
    results = []
    while pending or running:
        while pending and len(running) < max(1, njobs):
            spec = pending.pop(0)
            h = hs[spec[1]]
            bud = h.budget.get(tier, {}) if isinstance(h.budget.get(tier), dict) else {}
            hard = float(bud.get('wall_s', 120.0)) * 1.25 + 30.0
            pr, pw = ctxm.Pipe(duplex=False)
            p = ctxm.Process(target=_child, args=(pw, spec))
            p.start()
            pw.close()
            running.append((p, pr, spec, time.time() + hard))
        time.sleep(0.02)
        still = []
        for (p, pr, spec, dl) in running:
            if pr.poll():
                try:
                    results.append(pr.recv())
                except EOFError:
                    results.append({'harness': spec[1], 'case': spec[2], 'twin': spec[3],
                                    'fatal': 'worker died', 'tb': ''})
                p.join(1)
                pr.close()
            elif not p.is_alive():
                results.append({'harness': spec[1], 'case': spec[2], 'twin': spec[3],
                                'fatal': 'worker exited with %r' % p.exitcode, 'tb': ''})
                pr.close()
            elif time.time() > dl:
                p.kill()
                p.join(1)
                pr.close()
                results.append({'harness': spec[1], 'case': spec[2], 'twin': spec[3],
                                'fatal': 'hard wall-clock kill (solver ignored its timeout)',
                                'tb': ''})
            else:
                still.append((p, pr, spec, dl))
        running = still
    return results


def _jsonable(o):
    if isinstance(o, dict):
        return {(k if isinstance(k, (str, int, float, bool)) or k is None else str(k)): _jsonable(v)
                for k, v in o.items()}
    if isinstance(o, (list, tuple)):
        return [_jsonable(x) for x in o]
    return o


def src_hash(fn):
    try:
        fn = getattr(fn, 'fget', fn)
        fn = getattr(fn, '__func__', fn)
        s = inspect.getsource(fn)
        return hashlib.sha256(s.encode()).hexdigest()[:16]
    except Exception:
        return 'unavailable'


def fq(fn):
    fn = getattr(fn, 'fget', fn)
    fn = getattr(fn, '__func__', fn)
    return '%s.%s' % (getattr(fn, '__module__', '?'), getattr(fn, '__qualname__', repr(fn)))


def load_known():
    p = os.path.join(VERIF, 'known_findings.json')
    if not os.path.exists(p):
        return {'known': [], 'fixed': []}
    return json.load(open(p))


def match_known(known, pid, v):
    for k in known.get('known', []):
        if k['property'] != pid:
            continue
        if k.get('harness') and k['harness'] != v['harness']:
            continue
        if k.get('label') and not re.fullmatch(k['label'], v['label']):
            continue
        if k.get('case'):
            if any(v['case'].get(kk) != vv for kk, vv in k['case'].items()):
                continue
        if k.get('when'):
            # predicate over the counterexample inputs / replay detail (python expr)
            env = {'inputs': v['model'].get('inputs', {}), 'choices': v['model'].get('choices', []),
                   'case': v['case'], 'detail': str(v.get('replay_detail')),
                   'sym_detail': str(v.get('sym_detail'))}
            try:
                if not eval(k['when'], {'__builtins__': {'abs': abs, 'len': len, 'any': any,
                                                         'all': all, 'str': str}}, env):
                    continue
            except Exception:
                continue
        return k
    return None


def main(argv=None):
    ap = argparse.ArgumentParser()
    ap.add_argument('pid')
    ap.add_argument('--tier', default=os.environ.get('VERIF_TIER', 'quick'),
                    choices=['quick', 'thorough'])
    ap.add_argument('--replay', default=None)
    ap.add_argument('--only', default=None, help='regex on harness names')
    ap.add_argument('--jobs', type=int, default=min(16, os.cpu_count() or 4))
    ap.add_argument('-v', action='store_true')
    args = ap.parse_args(argv)
    _setup_paths()
    pid = args.pid
    # The machinery is deterministic: nothing is sampled.  The solver's internal random seed
    # is therefore fixed; VERIF_SEED is only honoured when SYMX_HONOR_SEED=1 (used to
    # stress-test that verdicts do not depend on the solver's search order).
    seed = int(os.environ.get('VERIF_SEED', '0') or 0) if os.environ.get('SYMX_HONOR_SEED') else 0
    t0 = time.time()

    if args.replay:
        return do_replay(pid, args.replay)

    try:
        mod, hs = load_harnesses(pid)
    except Exception:
        traceback.print_exc()
        print("HARNESS-ERROR property=%s cannot load harness" % pid)
        return 2

    # shim self-validation (DESIGN 1.3): numpy vs shim on concrete inputs
    from symx import selfcheck
    sc = selfcheck.run(seed)
    if sc['failed']:
        print("HARNESS-ERROR shim self-validation failed: %r" % sc['failed'][:3])
        return 2

    jobs = []
    for h in mod.HARNESSES:
        if args.only and not re.search(args.only, h.name):
            continue
        cases = h.cases.get(args.tier) or h.cases.get('quick') or [{}]
        for case in cases:
            jobs.append((pid, h.name, case, None, args.tier, seed, None))
            for tw in h.twins:
                # twins run on the first case only per harness unless the case asks for it
                if case is cases[0] or case.get('_twins'):
                    jobs.append((pid, h.name, case, tw, args.tier, seed, None))
    # big jobs first
    results = run_jobs(jobs, args.jobs, hs, args.tier)

    known = load_known()
    rc = 0
    lines = []
    viol_new = []
    viol_known = {}
    problems = []
    tot = {'sat': 0, 'unsat': 0, 'unknown': 0}
    solver_s = 0.0
    paths = 0
    held = 0
    twins_ok = 0
    twins_total = 0
    labels = {}
    witness_ok = 0
    samples = []
    covered = {}
    sample_smt = None
    per_harness = {}
    for r in results:
        hn = r['harness']
        ph = per_harness.setdefault(hn, {'cases': 0, 'paths': 0, 'held': 0, 'queries': 0,
                                         'violations': 0, 'inconclusive': 0})
        if 'fatal' in r:
            problems.append('fatal in %s %r: %s\n%s' % (hn, r['case'], r['fatal'], r.get('tb', '')))
            continue
        h = hs[hn]
        for k in tot:
            tot[k] += r['queries'][k]
        solver_s += r['solver_s']
        ph['queries'] += sum(r['queries'].values())
        if r['twin'] is not None:
            twins_total += 1
            if r['violations']:
                twins_ok += 1
            else:
                problems.append('twin %s of %s %r was NOT refuted (vacuity / blind oracle): '
                                'inconclusive=%r errors=%r' % (
                                    r['twin'], hn, r['case'], r['inconclusive'][:2],
                                    r['engine_errors'][:1]))
            continue
        ph['cases'] += 1
        ph['paths'] += r['paths']
        ph['held'] += r['held']
        paths += r['paths']
        held += r['held']
        witness_ok += r['witness_ok']
        if sample_smt is None:
            sample_smt = r['sample_smt']
        for k, v in r['covered'].items():
            covered[k] = covered.get(k, 0) + v
        for lab, d in r['labels'].items():
            L = labels.setdefault('%s:%s' % (hn, lab), {'held': 0, 'violated': 0,
                                                        'inconclusive': 0})
            for k in d:
                L[k] += d[k]
        if r['sample_model'] is not None and len(samples) < 6:
            samples.append({'harness': hn, 'case': r['case'], 'witness_inputs': r['sample_model'],
                            'paths': r['paths'], 'queries': r['queries']})
        if not r['exhausted']:
            msg = 'paths not exhausted in %s %r: %s' % (hn, r['case'], r['budget_note'])
            (problems if h.required else lines).append(msg)
        for e in r['engine_errors']:
            msg = 'engine error in %s %r: %s\n%s' % (hn, r['case'], e['msg'], e['tb'])
            (problems if h.required else lines).append(msg)
        for w in r['witness_bad']:
            problems.append('translator validation failed in %s %r: %r' % (hn, r['case'], w))
        if r['paths'] == 0:
            problems.append('no feasible path in %s %r (vacuous harness)' % (hn, r['case']))
        elif (r.get('twin') is None and r.get('exhausted') and not r['violations']
              and not r['witness_bad'] and r.get('witness_ok', 0) == 0 and r.get('held', 0) > 0):
            # every obligation 'held' but no path of the case has a satisfiable path
            # condition to replay: the assumptions/axioms contradict each other and the
            # obligations hold vacuously (seen with beta = 0 in C01's closed forms: log of 0)
            lines.append('no path of %s %r has a replayed witness (path condition unknown to '
                         'the solver, or unsatisfiable = vacuous case)' % (hn, r['case']))
        for inc in r['inconclusive']:
            ph['inconclusive'] += 1
            msg = 'inconclusive %s:%s %r: %s' % (hn, inc['label'], r['case'], inc.get('why'))
            if h.required:
                problems.append(msg + ' ' + json.dumps(inc.get('model'))[:300])
            else:
                lines.append(msg)
        for v in r['violations']:
            ph['violations'] += 1
            k = match_known(known, pid, v)
            if k is not None:
                viol_known.setdefault(k['what'], []).append(v)
            else:
                viol_new.append(v)

    os.makedirs(os.path.join(VERIF, 'evidence'), exist_ok=True)
    os.makedirs(os.path.join(VERIF, 'replays'), exist_ok=True)
    for what, vs in viol_known.items():
        print("KNOWN-FINDING: property=%s %s" % (pid, what))
    seen = set()
    for v in viol_new:
        key = (v['harness'], v['label'])
        if key in seen:
            continue
        seen.add(key)
        blob = json.dumps(v, sort_keys=True, default=str)
        hsh = hashlib.sha256(blob.encode()).hexdigest()[:10]
        lab = re.sub(r'[^A-Za-z0-9_.-]+', '_', '%s-%s' % (v['harness'], v['label']))[:80]
        path = os.path.join(VERIF, 'replays', '%s-%s-%s.json' % (pid, lab, hsh))
        with open(path, 'w') as f:
            json.dump(_jsonable({'property': pid, **v}), f, indent=1, default=str)
        print("VIOLATION property=%s replay=%s" % (pid, path))
        print("  harness=%s label=%s case=%r\n  inputs=%s\n  observed: %s" % (
            v['harness'], v['label'], v['case'],
            json.dumps(v['model'].get('inputs'))[:600], v.get('replay_detail')))
        rc = 1
    if problems and rc == 0:
        rc = 2
    for p in problems:
        print("HARNESS-ERROR property=%s %s" % (pid, p))
    if args.v:
        for l in lines:
            print("note:", l)

    # ---- evidence
    encoded = []
    for h in mod.HARNESSES:
        try:
            fns = h.encodes() if callable(h.encodes) else list(h.encodes)
        except Exception as e:
            fns = []
        for fn in fns:
            encoded.append({'function': fq(fn), 'sha256_16': src_hash(fn), 'harness': h.name})
    n_obl = sum(sum(d.values()) for d in labels.values())
    n_held = sum(d['held'] for d in labels.values())
    distinct_labels = len(labels)
    ev = {
        'property_id': pid, 'tier': args.tier, 'seed': seed, 'level': 'other',
        'coverage': {
            'explanation': (
                "Bounded symbolic execution of the real pyrex functions (imported from %s at "
                "this run) on solver terms stored in numpy object arrays; every obligation is a "
                "z3 query 'path condition AND atom axioms AND NOT claim'. unsat on every explored "
                "path with the path queue exhausted = held within the stated bounds; sat models "
                "are replayed in float on the unshimmed code and reported only if they "
                "reproduce. Real-arithmetic semantics over the exact rational values of the "
                "code's float constants; IEEE rounding is outside the claim." % REPO),
            'obligations': n_obl, 'discharged': n_held,
            'evaluations': sum(tot.values()),
            'distinct_nontrivial': distinct_labels,
            'rule': ("evaluations = SMT queries issued (branch feasibility + obligations); "
                     "distinct_nontrivial = number of distinct (harness, obligation label) "
                     "pairs that were decided by at least one query on a feasible path"),
            'queries': tot, 'solver_seconds': round(solver_s, 3), 'paths': paths,
            'paths_exhausted': all(r.get('exhausted', False) for r in results if 'fatal' not in r),
            'exhaustive': False,
            'twins_refuted': twins_ok, 'twins_total': twins_total,
            'witness_replays_ok': witness_ok,
            'functions_encoded': encoded,
            'harnesses': [{'name': h.name, 'doc': h.doc, 'required': h.required,
                           'cases': h.cases.get(args.tier) or h.cases.get('quick'),
                           'twins': list(h.twins), **per_harness.get(h.name, {})}
                          for h in mod.HARNESSES if not args.only or re.search(args.only, h.name)],
            'obligation_labels': labels,
            'branches_covered': covered,
            'samples': samples + ([{'smtlib2_of_one_query': sample_smt}] if sample_smt else []),
            'bounds': getattr(mod, 'BOUNDS', {}).get(args.tier, getattr(mod, 'BOUNDS', {})),
            'outside_claim': getattr(mod, 'OUTSIDE', []),
            'known_findings_matched': sorted(viol_known.keys()),
            'shim_selfcheck': {'comparisons': sc['n'], 'failed': len(sc['failed'])},
            'problems': problems[:20],
            'notes': lines[:40],
        },
        'assumptions': list(getattr(mod, 'ASSUMPTIONS', [])) + [
            "z3 %s is sound for QF_NRA/LIA" % '.'.join(map(str, __import__('z3').get_version())),
            "numpy/scipy/h5py behave as documented for the stubbed functions (validated on "
            "concrete inputs by the shim self-check on every run)"],
        'wall_s': round(time.time() - t0, 2),
        'violations': len(viol_new),
    }
    with open(os.path.join(VERIF, 'evidence', '%s.json' % pid), 'w') as f:
        json.dump(_jsonable(ev), f, indent=1, default=str)
    print("%s %s: %d harness cases, %d paths, %d obligations (%d held), queries %r, "
          "solver %.1fs, twins %d/%d, wall %.1fs -> exit %d" % (
              pid, args.tier, len([r for r in results if r.get('twin') is None]), paths, n_obl,
              n_held, tot, solver_s, twins_ok, twins_total, time.time() - t0, rc))
    return rc


def do_replay(pid, path):
    from symx import explore
    v = json.load(open(path))
    mod, hs = load_harnesses(pid)
    h = hs[v['harness']]
    rep = explore.concrete_run(h, v['model'], v['case'], v.get('twin'))
    print("replay of %s on %s (real numpy, real pyrex from %s)" % (path, h.name, REPO))
    print(" inputs:", json.dumps(v['model'].get('inputs'))[:1000])
    print(" error:", rep.error)
    for l, d in rep.failed:
        print(" FAILED %s: %s" % (l, d))
    bad = rep.error not in (None, 'assumption') or any(l == v['label'] for l, _ in rep.failed)
    if bad:
        print("VIOLATION property=%s replay=%s" % (pid, path))
        return 1
    print(" claim %s holds on this input now" % v['label'])
    return 0


if __name__ == '__main__':
    sys.exit(main())
