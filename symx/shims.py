"""Module-global substitution (DESIGN.md 1.3): while a symbolic run is active the pyrex
modules under test see `np`, `scipy`, `logger` ... replaced by thin proxies that

* build object-dtype SymArrays in constructors (so solver terms can be stored),
* implement the handful of numpy/scipy functions that have no object-dtype loop
  (interp, fft, linspace, piecewise, ...) from their documentation,
* turn logging into no-ops.

Everything else is forwarded to the real library.  Nothing in /repo is edited.
"""
import contextlib
import math
import sys
import types
import numpy as np
import scipy
import scipy.fft
import scipy.constants

from . import poly as P
from . import arr as A
from . import ctx as C
from .arr import SymArray, has_sym, to_obj
from .poly import SymError


def _floatish(dtype):
    if dtype is None:
        return True
    try:
        k = np.dtype(dtype).kind
    except TypeError:
        return False
    return k in 'fc'


# (file suffix, function names, text on the calling line): `np.any(...)` there returns False
CUTS = [
    ('pyrex/signals.py', ('filter_frequencies', '_apply_filters'),
     'if np.any(np.abs(np.imag('),
]
CUT_HITS = {}


class NPShim(types.ModuleType):
    """Proxy for the numpy module as seen from a pyrex module during a symbolic run."""

    def __init__(self, real=np):
        super().__init__('numpy')
        object.__setattr__(self, '_real', real)
        object.__setattr__(self, 'random', RandomShim())
        object.__setattr__(self, 'fft', NPFFTShim())
        object.__setattr__(self, 'linalg', LinalgShim())

    def any(self, a, *args, **kw):
        # recorded cuts: branches whose only effect is a log message (stubbed anyway)
        import linecache
        fr = sys._getframe(1)
        for (suffix, funcs, needle) in CUTS:
            if fr.f_code.co_name in funcs and fr.f_code.co_filename.endswith(suffix):
                if needle in linecache.getline(fr.f_code.co_filename, fr.f_lineno):
                    CUT_HITS[needle] = CUT_HITS.get(needle, 0) + 1
                    return False
        if has_sym(a) or isinstance(a, SymArray):
            return A._any(a, *args, **kw)
        return np.any(a, *args, **kw)

    def __getattr__(self, name):
        real = object.__getattribute__(self, '_real')
        v = getattr(real, name)
        if name in A.AF and callable(v):
            h = A.AF[name]

            def disp(*args, **kw):
                if any(has_sym(a) or isinstance(a, SymArray) for a in args) or \
                        any(has_sym(a) or isinstance(a, SymArray) for a in kw.values()):
                    return h(*args, **kw)
                return v(*args, **kw)
            disp.__name__ = name
            return disp
        return v

    # ---- constructors: float/complex arrays become object arrays
    def zeros(self, shape, dtype=None, **k):
        if not _floatish(dtype):
            return np.zeros(shape, dtype=dtype, **k)
        out = np.empty(shape, dtype=object)
        out[...] = 0.0
        return out.view(SymArray)

    def ones(self, shape, dtype=None, **k):
        if not _floatish(dtype):
            return np.ones(shape, dtype=dtype, **k)
        out = np.empty(shape, dtype=object)
        out[...] = 1.0
        return out.view(SymArray)

    def empty(self, shape, dtype=None, **k):
        if not _floatish(dtype):
            return np.empty(shape, dtype=dtype, **k)
        out = np.empty(shape, dtype=object)
        out[...] = 0.0
        return out.view(SymArray)

    def full(self, shape, fill_value, dtype=None, **k):
        if not _floatish(dtype) and not has_sym(fill_value):
            return np.full(shape, fill_value, dtype=dtype, **k)
        out = np.empty(shape, dtype=object)
        out[...] = fill_value
        return out.view(SymArray)

    def array(self, obj, dtype=None, copy=True, **k):
        if dtype is not None and not _floatish(dtype) and not has_sym(obj):
            return np.array(obj, dtype=dtype, **k)
        if isinstance(obj, (str, bytes)) or obj is None:
            return np.array(obj, dtype=dtype, **k)
        try:
            r = to_obj(obj)
        except ValueError:
            return np.array(obj, dtype=dtype, **k)
        if isinstance(r, np.ndarray):
            # keep non-numeric content (strings, objects) native
            flat = r.ravel()
            if flat.size and not all(A._is_symval(x) or P.is_concrete_number(x) for x in flat):
                return np.array(obj, dtype=dtype, **k)
            if flat.size and dtype is None and all(isinstance(x, (bool, np.bool_))
                                                   for x in flat):
                return np.array(obj, dtype=bool)
            if flat.size and dtype is None and all(
                    isinstance(x, (int, np.integer)) and not isinstance(x, (bool, np.bool_))
                    for x in flat):
                return np.array(obj, dtype=int)
            return r.copy() if copy else r
        # scalar
        if A._is_symval(r):
            a = np.empty((), dtype=object)
            a[()] = r
            return a.view(SymArray)
        return np.array(obj, dtype=dtype, **k)

    def asarray(self, obj, dtype=None, **k):
        if isinstance(obj, SymArray) and (dtype is None or _floatish(dtype)):
            return obj
        return self.array(obj, dtype=dtype, copy=False)

    def asanyarray(self, obj, dtype=None, **k):
        return self.asarray(obj, dtype=dtype)

    def atleast_1d(self, x):
        r = self.asarray(x)
        if isinstance(r, np.ndarray) and r.ndim == 0:
            return r.reshape(1)
        return r

    def linspace(self, start, stop, num=50, endpoint=True, retstep=False, dtype=None, axis=0):
        return A._linspace(start, stop, num, endpoint, retstep)

    def arange(self, *args, **kw):
        if has_sym(args):
            raise SymError("arange with symbolic bounds")
        r = np.arange(*args, **kw)
        if r.dtype.kind == 'f':
            return r.astype(object).view(SymArray)
        return r

    def logspace(self, *a, **k):
        return np.logspace(*a, **k).astype(object).view(SymArray)

    def geomspace(self, *a, **k):
        return np.geomspace(*a, **k).astype(object).view(SymArray)

    def errstate(self, **k):
        return contextlib.nullcontext()

    def isscalar(self, x):
        return A._is_symval(x) or np.isscalar(x)

    def vectorize(self, f, otypes=None, *a, **k):
        """numpy.vectorize: without otypes the output type is that of f(first element)."""
        def g(*args):
            args = [to_obj(x) for x in args]
            if not any(has_sym(x) or isinstance(x, SymArray) for x in args):
                # concrete inputs, but f may still return symbolic values
                pass
            res = A._bcast_apply(f, *args)
            if otypes is None and isinstance(res, np.ndarray) and res.size:
                first = res.ravel()[0]
                if isinstance(first, (int, np.integer)) and not isinstance(first, (bool, np.bool_)):
                    def to_int(v):
                        if isinstance(v, (P.SymComplex, complex, np.complexfloating)):
                            raise TypeError("int() argument must be a string, a bytes-like "
                                            "object or a real number, not 'complex'")
                        if isinstance(v, P.SymReal):
                            return P.ite(v >= 0, P.floor_real(v), -P.floor_real(-v))
                        return int(v)
                    res = A._map1(to_int, res)
            return res
        return g

    def exp(self, x, *a, **k):
        r = np.exp(x, *a, **k)
        if isinstance(x, (float, int, np.floating, np.integer)):
            P.note_exp_point(x, r)
        return r

    def log(self, x, *a, **k):
        r = np.log(x, *a, **k)
        if isinstance(x, (float, int, np.floating, np.integer)) and x > 0:
            P.note_exp_point(r, x)
        return r

    def real(self, x):
        return A._map1(P.real_of, x) if (has_sym(x) or isinstance(x, SymArray)) else np.real(x)

    def imag(self, x):
        return A._map1(P.imag_of, x) if (has_sym(x) or isinstance(x, SymArray)) else np.imag(x)


class LinalgShim:
    def norm(self, x, ord=None, axis=None, keepdims=False):
        if has_sym(x) or isinstance(x, SymArray):
            return A._norm(x, ord, axis, keepdims)
        return np.linalg.norm(x, ord, axis, keepdims)

    def __getattr__(self, name):
        return getattr(np.linalg, name)


class RandomShim:
    """np.random.* -> fresh symbolic variates constrained to the distribution's support."""

    def _fresh(self, tag, lo=None, hi=None, hi_strict=True):
        c = C.cur()
        c.n_rand = getattr(c, 'n_rand', 0) + 1
        name = "rnd_%s_%d" % (tag, c.n_rand)
        hook = getattr(c, 'random_hook', None)
        if hook is not None:
            r = hook(tag, c.n_rand, lo, hi)
            if r is not None:
                return r
        return P.var(name, lo, hi, hi_strict=hi_strict)

    def _many(self, tag, size, lo=None, hi=None):
        if size is None:
            return self._fresh(tag, lo, hi)
        shape = (size,) if isinstance(size, (int, np.integer)) else tuple(size)
        out = np.empty(shape, dtype=object)
        for i in np.ndindex(*shape):
            out[i] = self._fresh(tag, lo, hi)
        return out.view(SymArray)

    def random_sample(self, size=None):
        return self._many('u', size, 0.0, 1.0)

    random = random_sample
    ranf = random_sample
    sample = random_sample

    def rand(self, *shape):
        return self._many('u', shape if shape else None, 0.0, 1.0)

    def uniform(self, low=0.0, high=1.0, size=None):
        if size is None:
            shp = np.broadcast(np.asarray(A._as_obj(low), dtype=object),
                               np.asarray(A._as_obj(high), dtype=object)).shape
            size = shp if shp else None
        u = self._many('u', size, 0.0, 1.0)
        lo = A.to_obj(low)
        hi = A.to_obj(high)
        return lo + (hi - lo) * u

    def normal(self, loc=0.0, scale=1.0, size=None):
        g = self._many('g', size)
        return loc + scale * g

    def rayleigh(self, scale=1.0, size=None):
        r = self._many('ray', size, 0.0, None)
        return scale * r

    def poisson(self, lam=1.0, size=None):
        raise SymError("poisson variates need a harness-level hook")

    def choice(self, *a, **k):
        raise SymError("np.random.choice needs a harness-level hook")

    def seed(self, *a):
        pass


# ---------------------------------------------------------------------------------
# exact DFT on symbolic data

def _twiddle(k, n):
    """(cos, sin)(2 pi k / n) as floats, exact for multiples of a quarter turn."""
    k = k % n
    if (4 * k) % n == 0:
        return [(1.0, 0.0), (0.0, 1.0), (-1.0, 0.0), (0.0, -1.0)][(4 * k) // n]
    ang = 2 * math.pi * k / n
    return math.cos(ang), math.sin(ang)


def dft(x, inverse=False, n=None):
    x = np.asarray(A._as_obj(x), dtype=object).ravel()
    if n is not None:
        if n < len(x):
            x = x[:n]
        elif n > len(x):
            x = np.concatenate([x, np.zeros(n - len(x), dtype=object)])
    N = len(x)
    out = np.empty(N, dtype=object)
    sgn = 1.0 if inverse else -1.0
    for k in range(N):
        re = 0.0
        im = 0.0
        for j in range(N):
            c, s = _twiddle(k * j, N)
            s = sgn * s
            xr = P.real_of(x[j])
            xi = P.imag_of(x[j])
            # (xr + i xi)(c + i s)
            re = P.add(re, P.sub(P.mul(xr, c), P.mul(xi, s)))
            im = P.add(im, P.add(P.mul(xr, s), P.mul(xi, c)))
        if inverse:
            re = P.div(re, float(N))
            im = P.div(im, float(N))
        out[k] = P.cmk(re, im) if isinstance(re, P.SymReal) or isinstance(im, P.SymReal) \
            else complex(re, im)
    return out.view(SymArray)


class FFTShim:
    def __init__(self, real):
        self._real = real

    def __getattr__(self, name):
        return getattr(self._real, name)

    def _sym(self, x):
        return has_sym(x)

    def fft(self, x, n=None, **k):
        if self._sym(x):
            return dft(x, False, n)
        return self._post(self._real.fft(self._pre(x), n=n, **k))

    def ifft(self, x, n=None, **k):
        if self._sym(x):
            return dft(x, True, n)
        return self._post(self._real.ifft(self._pre(x), n=n, **k))

    def rfft(self, x, n=None, **k):
        if self._sym(x):
            N = len(x) if n is None else n
            return dft(x, False, n)[:N // 2 + 1]
        return self._post(self._real.rfft(self._pre(x), n=n, **k))

    def irfft(self, x, n=None, **k):
        if self._sym(x):
            x = np.asarray(A._as_obj(x), dtype=object).ravel()
            m = len(x)
            N = 2 * (m - 1) if n is None else n
            full = np.empty(N, dtype=object)
            for kk in range(N):
                if kk < m and kk <= N // 2:
                    v = x[kk]
                    if kk == 0 or (N % 2 == 0 and kk == N // 2):
                        v = P.real_of(v)     # C2R transforms ignore these imaginary parts
                    full[kk] = v
                else:
                    src = N - kk
                    v = x[src] if src < m else 0.0
                    full[kk] = A._conj(v)
            return A._map1(P.real_of, dft(full, True))
        return self._post(self._real.irfft(self._pre(x), n=n, **k))

    def fftfreq(self, n, d=1.0):
        if has_sym(d):
            n = int(n)
            out = np.empty(n, dtype=object)
            for i in range(n):
                kk = i if i < (n + 1) // 2 else i - n
                out[i] = P.div(float(kk), P.mul(float(n), d))
            return out.view(SymArray)
        return self._post(self._real.fftfreq(n, d))

    def rfftfreq(self, n, d=1.0):
        if has_sym(d):
            n = int(n)
            out = np.empty(n // 2 + 1, dtype=object)
            for i in range(n // 2 + 1):
                out[i] = P.div(float(i), P.mul(float(n), d))
            return out.view(SymArray)
        return self._post(self._real.rfftfreq(n, d))

    def _pre(self, x):
        if isinstance(x, np.ndarray) and x.dtype == object:
            lst = x.tolist()
            return np.asarray(lst, dtype=complex if any(isinstance(v, complex) for v in
                                                        np.asarray(x).ravel()) else float)
        return x

    def _post(self, r):
        if isinstance(r, np.ndarray) and r.dtype.kind in 'fc':
            return r.astype(object).view(SymArray)
        return r


class NPFFTShim(FFTShim):
    def __init__(self):
        super().__init__(np.fft)


class _Interp1d:
    """scipy.interpolate.interp1d, kind='linear' (If-chain on symbolic queries)."""

    def __init__(self, x, y, kind='linear', axis=-1, copy=True, bounds_error=None,
                 fill_value=float('nan'), assume_sorted=False):
        import scipy.interpolate
        self._real = scipy.interpolate.interp1d(x, y, kind=kind, axis=axis, copy=copy,
                                                bounds_error=bounds_error,
                                                fill_value=fill_value,
                                                assume_sorted=assume_sorted)
        if kind != 'linear':
            raise SymError("interp1d kind %r" % kind)
        xs = np.asarray(x, dtype=float)
        ys = np.asarray(y, dtype=float)
        if not assume_sorted:
            o = np.argsort(xs)
            xs, ys = xs[o], ys[o]
        self.x, self.y = xs, ys
        self.extrap = isinstance(fill_value, str) and fill_value == 'extrapolate'

    def __call__(self, q):
        if not (has_sym(q) or isinstance(q, SymArray)):
            r = self._real(np.asarray(q, dtype=float) if isinstance(q, np.ndarray) else q)
            if isinstance(r, np.ndarray) and r.ndim:
                return r.astype(object).view(SymArray)
            return r
        if not self.extrap:
            raise SymError("interp1d without extrapolation on symbolic input")
        xs, ys = self.x, self.y
        n = len(xs)

        def one(v):
            # segment j for xs[j] <= v < xs[j+1]; first/last segment extended outwards
            def seg(j):
                sl = (ys[j + 1] - ys[j]) / (xs[j + 1] - xs[j])
                return P.add(float(ys[j]), P.mul(float(sl), P.sub(v, float(xs[j]))))
            res = seg(n - 2)
            for j in range(n - 3, -1, -1):
                res = P.ite(P.cmp(v, float(xs[j + 1]), '<'), seg(j), res)
            return res
        r = A._map1(one, q)
        return r


class InterpolateShim:
    interp1d = _Interp1d

    def __getattr__(self, name):
        import scipy.interpolate
        return getattr(scipy.interpolate, name)


class ScipyShim(types.ModuleType):
    def __init__(self):
        super().__init__('scipy')
        object.__setattr__(self, 'fft', FFTShim(scipy.fft))
        object.__setattr__(self, 'interpolate', InterpolateShim())
        object.__setattr__(self, 'constants', scipy.constants)
        object.__setattr__(self, '_over', {})

    def __getattr__(self, name):
        over = object.__getattribute__(self, '_over')
        if name in over:
            return over[name]
        import importlib
        try:
            return getattr(scipy, name)
        except AttributeError:
            return importlib.import_module('scipy.' + name)


class NoLog:
    def __getattr__(self, name):
        def f(*a, **k):
            return None
        return f

    def isEnabledFor(self, *a):
        return False


@contextlib.contextmanager
def installed(modules, extra=None, np_shim=None, scipy_shim=None):
    """Swap np/scipy/logger globals of the given pyrex modules for the duration."""
    nps = np_shim or NPShim()
    sps = scipy_shim or ScipyShim()
    saved = []
    try:
        for m in modules:
            d = m.__dict__
            for nm, val in (('np', nps), ('scipy', sps), ('logger', NoLog())):
                if nm in d:
                    saved.append((d, nm, d[nm]))
                    d[nm] = val
        for (mod, nm, val) in (extra or []):
            d = mod.__dict__ if isinstance(mod, types.ModuleType) else mod
            saved.append((d, nm, d.get(nm, _MISSING)))
            d[nm] = val
        yield nps, sps
    finally:
        for d, nm, val in reversed(saved):
            if val is _MISSING:
                d.pop(nm, None)
            else:
                d[nm] = val


_MISSING = object()
