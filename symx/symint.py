"""Symbolic integers: SymReal polynomials over atoms ToReal(<z3 Int const>)."""
import z3
from fractions import Fraction as Fr

from . import ctx as C
from . import poly as P


def ivar(name, lo=None, hi=None):
    c = C.cur()
    key = ('ivar', name)
    idx = c.atom_by_key.get(key)
    if idx is None:
        v = z3.Int(name)
        idx = c.new_atom(z3.ToReal(v), key)
        c.inputs[name] = ('int', v, lo, hi)
        if lo is not None:
            c.add_axiom(v >= int(lo))
        if hi is not None:
            c.add_axiom(v <= int(hi))
    return P.SymReal({((idx, 1),): Fr(1)})
