"""Object-dtype ndarray subclass whose elements may be solver terms, and the ufunc /
array-function dispatch that lets the *real* numpy-calling pyrex code run on it.

Comparison ufuncs return arrays of SymBool without forking; masked assignment, np.where,
any/all merge with If terms.  Forking happens only when Python itself needs a bool / int.
"""
import math
import numpy as np
import numpy as _numpy

from . import poly as P
from .poly import SymReal, SymBool, SymComplex, SymError


def _is_symval(x):
    return isinstance(x, (SymReal, SymBool, SymComplex))


class SymArray(np.ndarray):
    __array_priority__ = 3000

    def __new__(cls, data):
        a = np.asarray(data, dtype=object) if not (isinstance(data, np.ndarray)
                                                   and data.dtype == object) else data
        return a.view(cls)

    # -- ufuncs
    def __array_ufunc__(self, ufunc, method, *inputs, **kwargs):
        return sym_ufunc(ufunc, method, *inputs, **kwargs)

    def __array_function__(self, func, types, args, kwargs):
        return sym_array_function(func, args, kwargs)

    # -- indexing with symbolic masks
    def __getitem__(self, key):
        key = _plain_key(key)
        if _is_sym_mask(key):
            # shape depends on the mask: must be decided (forks per element)
            key = np.array([bool(k) for k in np.asarray(key, dtype=object).ravel()],
                           dtype=bool).reshape(np.shape(key))
        elif isinstance(key, tuple) and any(_is_sym_mask(k) for k in key):
            key = tuple(np.array([bool(x) for x in np.asarray(k, dtype=object).ravel()],
                                 dtype=bool).reshape(np.shape(k)) if _is_sym_mask(k) else k
                        for k in key)
        r = np.ndarray.__getitem__(self, key)
        return r

    def __setitem__(self, key, value):
        key = _plain_key(key)
        if _is_sym_mask(key) or (isinstance(key, tuple) and any(_is_sym_mask(k) for k in key)):
            _masked_assign(self, key, value)
            return
        if isinstance(value, np.ndarray) and value.dtype != object:
            value = value.astype(object)
        np.ndarray.__setitem__(self, key, value)

    # -- attributes numpy code touches
    @property
    def real(self):
        return _PartView(self, 're')

    @real.setter
    def real(self, value):
        if isinstance(value, _PartView) and value.arr is self and value.which == 're':
            return                      # `a.real *= k`: already written through
        _PartView(self, 're')[...] = value

    @property
    def imag(self):
        return _PartView(self, 'im')

    @imag.setter
    def imag(self, value):
        if isinstance(value, _PartView) and value.arr is self and value.which == 'im':
            return                      # `a.imag *= k`: already written through
        _PartView(self, 'im')[...] = value

    def conj(self):
        return _map1(lambda x: x.conjugate() if hasattr(x, 'conjugate') else x, self)

    conjugate = conj

    def copy(self, order='C'):
        return np.ndarray.copy(self, order).view(SymArray)

    def astype(self, dtype, *a, **k):
        if np.dtype(dtype) == object:
            return self.copy()
        if any(_is_symval(x) for x in self.ravel()):
            if np.dtype(dtype).kind in 'fc':
                return self.copy()
            raise SymError("astype(%s) on symbolic array" % dtype)
        return np.asarray(self.tolist(), dtype=dtype)

    def __bool__(self):
        if self.size != 1:
            raise ValueError("The truth value of an array with more than one element is "
                             "ambiguous. Use a.any() or a.all()")
        return bool(self.ravel()[0])

    def __float__(self):
        if self.size == 1:
            return float(self.ravel()[0])
        raise TypeError("only size-1 arrays can be converted")

    def tolist(self):
        return np.ndarray.tolist(np.asarray(self))

    def __reduce__(self):
        raise SymError("pickling symbolic arrays")

    def __deepcopy__(self, memo):
        return self.copy()


class _PartView:
    """`arr.real` / `arr.imag` of an object array with write-through item assignment."""

    def __init__(self, arr, which):
        self.arr = arr
        self.which = which

    def _get(self):
        f = P.real_of if self.which == 're' else P.imag_of
        return _map1(f, self.arr)

    def __getitem__(self, key):
        return self._get()[key]

    def __setitem__(self, key, value):
        cur = self._get()
        cur[key] = value
        other = _map1(P.imag_of if self.which == 're' else P.real_of, self.arr)
        flat = self.arr.ravel()
        c = np.asarray(cur, dtype=object).ravel()
        o = np.asarray(other, dtype=object).ravel()
        for i in range(flat.size):
            re, im = (c[i], o[i]) if self.which == 're' else (o[i], c[i])
            np.ndarray.__setitem__(flat, i, P.cmk(re, im) if not _is_zero(im) else re)

    def __array__(self, dtype=None, copy=None):
        return np.asarray(self._get(), dtype=dtype)

    def __len__(self):
        return len(self.arr)

    @property
    def shape(self):
        return self.arr.shape

    def __iter__(self):
        return iter(self._get())

    def __imul__(self, o):
        # numpy: `a.imag *= k` multiplies the part of `a` in place (a view) and then
        # re-assigns it; when `a` is a temporary copy (fancy/boolean indexing) the
        # effect is lost with it - exactly as in numpy
        self[...] = self._get() * o
        return self

    def __getattr__(self, name):
        return getattr(self._get(), name)

    def __mul__(self, o):
        return self._get() * o

    __rmul__ = __mul__

    def __add__(self, o):
        return self._get() + o

    __radd__ = __add__

    def __sub__(self, o):
        return self._get() - o

    def __rsub__(self, o):
        return o - self._get()

    def __truediv__(self, o):
        return self._get() / o

    def __neg__(self):
        return -self._get()

    def __pow__(self, o):
        return self._get() ** o

    def __lt__(self, o):
        return self._get() < o

    def __gt__(self, o):
        return self._get() > o

    def __le__(self, o):
        return self._get() <= o

    def __ge__(self, o):
        return self._get() >= o


def _is_zero(x):
    return (not _is_symval(x)) and x == 0


def _plain_key(key):
    if isinstance(key, _PartView):
        key = key._get()
    if isinstance(key, tuple):
        return tuple(_plain_key(k) for k in key)
    if isinstance(key, np.ndarray) and key.dtype == object and key.size and \
            all(isinstance(x, (bool, np.bool_)) for x in key.ravel()):
        return np.asarray(key.tolist(), dtype=bool).reshape(key.shape)
    if isinstance(key, np.ndarray) and key.dtype == object and key.size == 0:
        return np.zeros(key.shape, dtype=bool)
    return key


def _is_sym_mask(k):
    if isinstance(k, SymBool):
        return True
    if isinstance(k, np.ndarray) and k.dtype == object and k.size:
        flat = k.ravel()
        return any(isinstance(x, SymBool) for x in flat) and \
            all(isinstance(x, (SymBool, bool, np.bool_)) for x in flat)
    return False


def _concrete_mask(k):
    if _is_sym_mask(k):
        k = np.asarray(k, dtype=object)
        return np.array([bool(x) for x in k.ravel()], dtype=bool).reshape(k.shape)
    return k


def _masked_assign(arr, key, value):
    """arr[mask] = value with a symbolic mask: element-wise If-merge (no forking)."""
    if isinstance(key, tuple):
        vshape = np.shape(np.asarray(value, dtype=object)) if not _is_symval(value) else ()
        if vshape != () and vshape != arr.shape:
            try:
                np.broadcast_to(np.empty(vshape), arr.shape)
            except ValueError:
                # one value per selected element: the selection must be concrete (it already
                # is on this path if the same mask was used to read, as in `b[:, m] += v`)
                ck = tuple(_concrete_mask(k) for k in key)
                np.ndarray.__setitem__(arr, ck, np.asarray(value, dtype=object))
                return
        # e.g. b[:, mask]: build the full boolean mask by broadcasting an index grid
        full = np.empty(arr.shape, dtype=object)
        full[...] = True
        idx = np.empty(arr.shape, dtype=object)
        # only the pattern (slice(None)..., mask) / (mask, slice(None)...) is supported
        for ax, k in enumerate(key):
            if isinstance(k, slice) and k == slice(None):
                continue
            if _is_sym_mask(k) or (isinstance(k, np.ndarray) and k.dtype == bool):
                shp = [1] * arr.ndim
                shp[ax] = arr.shape[ax]
                kk = np.asarray(k, dtype=object).reshape(shp)
                full = _map2(P.sb_and, full, np.broadcast_to(kk, arr.shape))
            else:
                raise SymError("unsupported symbolic index pattern %r" % (key,))
        mask = np.asarray(full, dtype=object)
    else:
        mask = np.asarray(key, dtype=object)
        if mask.shape != arr.shape:
            mask = np.broadcast_to(mask, arr.shape)
    val = np.asarray(value, dtype=object) if not _is_symval(value) else value
    if isinstance(val, np.ndarray) and val.ndim > 0:
        if val.shape != arr.shape:
            try:
                val = np.broadcast_to(val, arr.shape)
            except ValueError:
                # numpy semantics: value has one entry per True element; needs a concrete mask
                cm = np.array([bool(k) for k in mask.ravel()], dtype=bool).reshape(mask.shape)
                np.ndarray.__setitem__(arr, cm, value)
                return
        getv = lambda i: val[i]
    else:
        v0 = val.item() if isinstance(val, np.ndarray) else val
        getv = lambda i: v0
    for i in np.ndindex(arr.shape):
        m = mask[i]
        old = np.ndarray.__getitem__(arr, i)
        np.ndarray.__setitem__(arr, i, P.ite(m, getv(i), old))


# ---------------------------------------------------------------------------------
# elementwise kernels

def _cplx_guard(f_real, f_c=None):
    def g(*xs):
        return f_real(*xs)
    return g


def _not(x):
    return P.sb_not(x)


def _isfinite(x):
    if _is_symval(x):
        return True
    return bool(np.isfinite(x))


def _isnan(x):
    if _is_symval(x):
        return False
    return bool(np.isnan(x))


def _square(x):
    return P.mul(x, x)


def _conj(x):
    if isinstance(x, SymComplex):
        return x.conjugate()
    if isinstance(x, (complex, np.complexfloating)):
        return np.conj(x)
    return x


def _reciprocal(x):
    return P.div(1.0, x)


def _logical(fn):
    def g(a, b):
        return fn(a, b)
    return g


def _eq(a, b):
    if isinstance(a, (SymBool, bool, np.bool_)) and isinstance(b, (SymBool, bool, np.bool_)):
        if isinstance(a, SymBool):
            return a == b
        if isinstance(b, SymBool):
            return b == a
        return bool(a) == bool(b)
    return P.cmp(a, b, '==')


def _ne(a, b):
    return P.sb_not(_eq(a, b))


def _floor(x):
    return P.floor_real(x)


def _ceil(x):
    return P.mul(-1.0, P.floor_real(P.mul(-1.0, x)))


def _hypot(a, b):
    return P.sqrt(P.add(P.mul(a, a), P.mul(b, b)))


UF = {
    'add': P.add, 'subtract': P.sub, 'multiply': P.mul, 'divide': P.div,
    'true_divide': P.div, 'power': P.power, 'float_power': P.power,
    'negative': lambda x: P.mul(-1.0, x), 'positive': lambda x: x,
    'absolute': P.sabs, 'fabs': P.sabs, 'sqrt': P.sqrt, 'exp': P.exp, 'log': P.log,
    'log10': P.log10, 'sin': P.sin, 'cos': P.cos, 'tan': P.tan, 'arcsin': P.arcsin,
    'arccos': P.arccos, 'arctan': P.arctan, 'arctan2': P.arctan2, 'square': _square,
    'less': lambda a, b: P.cmp(a, b, '<'), 'less_equal': lambda a, b: P.cmp(a, b, '<='),
    'greater': lambda a, b: P.cmp(a, b, '>'), 'greater_equal': lambda a, b: P.cmp(a, b, '>='),
    'equal': _eq, 'not_equal': _ne,
    'logical_and': lambda a, b: P.sb_and(a, b), 'logical_or': lambda a, b: P.sb_or(a, b),
    'logical_not': _not, 'bitwise_and': lambda a, b: P.sb_and(a, b),
    'bitwise_or': lambda a, b: P.sb_or(a, b), 'invert': _not,
    'maximum': P.smax, 'minimum': P.smin, 'fmax': P.smax, 'fmin': P.smin,
    'sign': P.sign, 'isfinite': _isfinite, 'isnan': _isnan,
    'isinf': lambda x: False if _is_symval(x) else bool(np.isinf(x)),
    'conjugate': _conj, 'reciprocal': _reciprocal, 'remainder': P.mod, 'mod': P.mod,
    'floor_divide': P.floordiv, 'floor': _floor, 'ceil': _ceil, 'hypot': _hypot,
    'clip': lambda x, lo, hi: P.smin(P.smax(x, lo), hi),
    'deg2rad': lambda x: P.mul(x, math.pi / 180), 'radians': lambda x: P.mul(x, math.pi / 180),
    'rad2deg': lambda x: P.mul(x, 180 / math.pi), 'degrees': lambda x: P.mul(x, 180 / math.pi),
}

_BOOL_UF = {'less', 'less_equal', 'greater', 'greater_equal', 'equal', 'not_equal',
            'logical_and', 'logical_or', 'logical_not', 'isfinite', 'isnan', 'isinf'}


def _elem(name):
    f = UF.get(name)
    if f is None:
        raise SymError("ufunc %s is not supported on symbolic values" % name)

    def g(*xs):
        # fast path: all-concrete elements use numpy's own scalar op
        if not any(_is_symval(x) for x in xs):
            r = getattr(np, name)(*xs)
            if isinstance(r, np.ndarray):
                r = r.item()
            if isinstance(r, (np.floating,)):
                return float(r)
            if isinstance(r, np.bool_):
                return bool(r)
            if isinstance(r, np.complexfloating):
                return complex(r)
            if isinstance(r, np.integer):
                return int(r)
            return r
        return f(*xs)
    return g


def _as_obj(x):
    if isinstance(x, _PartView):
        x = x._get()
    if isinstance(x, np.ndarray):
        if x.dtype == object:
            return np.asarray(x)
        return np.asarray(x).astype(object)
    if isinstance(x, (list, tuple)):
        return np.asarray(_to_obj_array(x))
    return x


def _to_obj_array(seq):
    """np.array(seq, dtype=object) that never tries to iterate symbolic scalars."""
    def shape_of(s):
        if isinstance(s, np.ndarray):
            return s.shape
        if isinstance(s, (list, tuple)):
            if len(s) == 0:
                return (0,)
            inner = [shape_of(x) for x in s]
            if all(i == inner[0] for i in inner):
                return (len(s),) + inner[0]
            raise ValueError("ragged")
        return ()
    if isinstance(seq, np.ndarray):
        return seq.astype(object) if seq.dtype != object else seq
    shp = shape_of(seq)
    out = np.empty(shp, dtype=object)

    def fill(s, idx):
        if isinstance(s, np.ndarray):
            if s.ndim == 0:
                out[idx] = s.item()
            else:
                for i in range(s.shape[0]):
                    fill(s[i], idx + (i,))
        elif isinstance(s, (list, tuple)):
            for i, x in enumerate(s):
                fill(x, idx + (i,))
        else:
            out[idx] = s.item() if isinstance(s, np.generic) else s
    fill(seq, ())
    return out


def _wrap(r):
    if isinstance(r, np.ndarray):
        if r.ndim == 0:
            return r.item()
        if r.dtype == object:
            return r.view(SymArray)
    return r


def _bcast_apply(f, *ins):
    ins = [_as_obj(x) for x in ins]
    if not any(isinstance(x, np.ndarray) for x in ins):
        return f(*ins)
    arrs = [x if isinstance(x, np.ndarray) else _scalar_arr(x) for x in ins]
    b = np.broadcast(*arrs)
    out = np.empty(b.shape, dtype=object)
    flat = out.reshape(-1) if out.size else out.ravel()
    i = 0
    for vals in b:
        flat[i] = f(*vals)
        i += 1
    return out.view(SymArray)


def _scalar_arr(x):
    a = np.empty((), dtype=object)
    a[()] = x
    return a


def _map1(f, a):
    a = _as_obj(a)
    if not isinstance(a, np.ndarray):
        return f(a)
    out = np.empty(a.shape, dtype=object)
    of = out.reshape(-1)
    for i, x in enumerate(a.reshape(-1)):
        of[i] = f(x)
    return out.view(SymArray)


def _map2(f, a, b):
    return _bcast_apply(f, a, b)


def _reduce(f, a, axis, initial, keepdims=False, empty=None):
    a = _as_obj(a)
    if not isinstance(a, np.ndarray):
        return a
    if axis is None:
        flat = a.reshape(-1)
        if flat.size == 0:
            if initial is not None:
                return initial
            if empty is not None:
                return empty
            raise ValueError("zero-size array to reduction operation which has no identity")
        acc = flat[0] if initial is None else f(initial, flat[0])
        for x in flat[1:]:
            acc = f(acc, x)
        if keepdims:
            out = np.empty((1,) * a.ndim, dtype=object)
            out[(0,) * a.ndim] = acc
            return out.view(SymArray)
        return acc
    if isinstance(axis, tuple):
        r = a
        for ax in sorted([x % a.ndim for x in axis], reverse=True):
            r = _reduce(f, r, ax, initial, keepdims, empty)
        return r
    axis = axis % a.ndim
    moved = np.moveaxis(a, axis, 0)
    if moved.shape[0] == 0:
        out = np.empty(moved.shape[1:], dtype=object)
        out[...] = initial if initial is not None else empty
        return _wrap(out)
    acc = moved[0] if initial is None else _bcast_apply(f, initial, moved[0])
    for k in range(1, moved.shape[0]):
        acc = _bcast_apply(f, acc, moved[k])
    if keepdims and isinstance(acc, np.ndarray):
        acc = np.expand_dims(acc, axis)
    return _wrap(acc) if isinstance(acc, np.ndarray) else acc


_IDENT = {'add': 0.0, 'multiply': 1.0, 'logical_or': False, 'logical_and': True,
          'bitwise_or': False, 'bitwise_and': True}


def sym_ufunc(ufunc, method, *inputs, **kwargs):
    name = ufunc.__name__
    out = kwargs.pop('out', None)
    kwargs.pop('dtype', None)
    kwargs.pop('casting', None)
    where = kwargs.pop('where', True)
    if where is not True:
        raise SymError("ufunc where= is not supported")
    f = _elem(name)
    if method == '__call__':
        kwargs.pop('subok', None)
        kwargs.pop('order', None)
        if kwargs:
            raise SymError("unsupported ufunc kwargs %r" % (kwargs,))
        r = _bcast_apply(f, *inputs)
    elif method == 'reduce':
        axis = kwargs.pop('axis', 0)
        keepdims = kwargs.pop('keepdims', False)
        initial = kwargs.pop('initial', None)
        if initial is np._NoValue:
            initial = None
        r = _reduce(f, inputs[0], axis, initial, keepdims, empty=_IDENT.get(name))
    elif method == 'accumulate':
        axis = kwargs.pop('axis', 0)
        a = _as_obj(inputs[0])
        res = np.empty(a.shape, dtype=object)
        moved = np.moveaxis(a, axis, 0)
        rm = np.moveaxis(res, axis, 0)
        acc = None
        for k in range(moved.shape[0]):
            acc = moved[k] if acc is None else _bcast_apply(f, acc, moved[k])
            rm[k] = acc
        r = res.view(SymArray)
    elif method == 'outer':
        a = _as_obj(inputs[0])
        b = _as_obj(inputs[1])
        a = np.asarray(a, dtype=object)
        b = np.asarray(b, dtype=object)
        r = _bcast_apply(f, a.reshape(a.shape + (1,) * b.ndim), b)
    else:
        raise SymError("ufunc method %s unsupported" % method)
    if out is not None:
        o = out[0] if isinstance(out, tuple) else out
        if isinstance(o, _PartView):
            raise SymError("out= on part view")
        if o.dtype != object and isinstance(r, np.ndarray) and \
                any(_is_symval(x) for x in np.asarray(r).ravel()):
            raise SymError("symbolic result written into a %s array (a constructor shim "
                           "is missing)" % o.dtype)
        if o.dtype != object:
            o[...] = np.asarray(r if not isinstance(r, np.ndarray) else
                                np.asarray(r).tolist(), dtype=o.dtype)
        else:
            np.ndarray.__setitem__(o, Ellipsis, r)
        return o
    return r


# ---------------------------------------------------------------------------------
# array functions (np.concatenate, np.where, ...) reached through __array_function__

AF = {}


def implements(*names):
    def deco(fn):
        for n in names:
            AF[n] = fn
        return fn
    return deco


def sym_array_function(func, args, kwargs):
    name = func.__name__
    h = AF.get(name)
    if h is not None:
        return h(*args, **kwargs)
    impl = getattr(func, '_implementation', None)
    if impl is None:
        raise SymError("numpy function %s unsupported on symbolic arrays" % name)
    args2 = _strip(args)
    kwargs2 = {k: _strip(v) for k, v in kwargs.items()}
    try:
        r = impl(*args2, **kwargs2)
    except SymError:
        raise
    return _rewrap(r)


def _strip(x):
    """SymArray -> still SymArray (python-level numpy implementations keep dispatching
    through ufuncs); only containers are walked."""
    if isinstance(x, tuple):
        return tuple(_strip(i) for i in x)
    if isinstance(x, list):
        return [_strip(i) for i in x]
    return x


def _rewrap(r):
    if isinstance(r, tuple):
        return tuple(_rewrap(i) for i in r)
    if isinstance(r, list):
        return [_rewrap(i) for i in r]
    return _wrap(r) if isinstance(r, np.ndarray) else r


def has_sym(x):
    if _is_symval(x):
        return True
    if isinstance(x, _PartView):
        return True
    if isinstance(x, np.ndarray):
        if x.dtype != object:
            return False
        return any(_is_symval(i) for i in x.ravel())
    if isinstance(x, (list, tuple)):
        return any(has_sym(i) for i in x)
    return False


def to_obj(x):
    """anything array-like -> SymArray (object) ; scalars stay scalars."""
    if isinstance(x, _PartView):
        x = x._get()
    if isinstance(x, SymArray):
        return x
    if isinstance(x, np.ndarray):
        if x.ndim == 0:
            return x.item()
        return (x if x.dtype == object else x.astype(object)).view(SymArray)
    if isinstance(x, (list, tuple)):
        a = _to_obj_array(x)
        return a.view(SymArray) if a.ndim else a.item()
    if isinstance(x, np.generic):
        return x.item()
    return x


@implements('concatenate')
def _concatenate(arrays, axis=0, out=None, dtype=None, casting=None):
    arrs = [np.asarray(to_obj(a), dtype=object) for a in arrays]
    arrs = [a.reshape(1) if a.ndim == 0 else a for a in arrs]
    return np.concatenate([np.asarray(a) for a in arrs], axis=axis).view(SymArray)


@implements('hstack')
def _hstack(tup, **k):
    arrs = [np.atleast_1d(np.asarray(to_obj(a), dtype=object)) for a in tup]
    return np.concatenate(arrs, axis=0 if arrs[0].ndim == 1 else 1).view(SymArray)


@implements('vstack')
def _vstack(tup, **k):
    arrs = [np.atleast_2d(np.asarray(to_obj(a), dtype=object)) for a in tup]
    return np.concatenate(arrs, axis=0).view(SymArray)


@implements('stack')
def _stack(arrays, axis=0, **k):
    arrs = [np.asarray(to_obj(a), dtype=object) for a in arrays]
    return np.stack([np.asarray(a) for a in arrs], axis=axis).view(SymArray)


@implements('where')
def _where(cond, x=None, y=None):
    if x is None:
        c = np.asarray(_as_obj(cond))
        cm = np.array([bool(k) for k in c.ravel()], dtype=bool).reshape(c.shape)
        return np.where(cm)
    return _bcast_apply(P.ite, cond, x, y)


@implements('any', 'sometrue')
def _any(a, axis=None, out=None, keepdims=False, **k):
    return _reduce(lambda p, q: P.sb_or(_tb(p), _tb(q)), _map1(_tb, a), axis, None,
                   keepdims, empty=False)


@implements('all', 'alltrue')
def _all(a, axis=None, out=None, keepdims=False, **k):
    return _reduce(lambda p, q: P.sb_and(_tb(p), _tb(q)), _map1(_tb, a), axis, None,
                   keepdims, empty=True)


def _tb(x):
    if isinstance(x, (SymBool, bool, np.bool_)):
        return x
    if isinstance(x, SymReal):
        return x != 0
    if isinstance(x, SymComplex):
        return P.sb_not(P.ceq(x, 0.0))
    return bool(x)


def _int_array(a, initial=None):
    """the concrete integer ndarray behind `a` when every element is a (non-bool) integer -
    numpy keeps such reductions integral (row counts, offsets: they end up in slices)"""
    if initial is not None and not isinstance(initial, (int, np.integer)):
        return None
    try:
        b = np.asarray(a, dtype=object) if not (isinstance(a, np.ndarray) and a.dtype != object) else a
    except Exception:
        return None
    if isinstance(b, np.ndarray) and b.dtype != object:
        return b if (b.dtype.kind in 'iu' and b.size) else None
    flat = b.reshape(-1)
    if flat.size == 0:
        return None
    for x in flat:
        if isinstance(x, (bool, np.bool_)) or not isinstance(x, (int, np.integer)):
            return None
    return np.array(b.tolist(), dtype=np.int64).reshape(b.shape)


@implements('sum')
def _sum(a, axis=None, dtype=None, out=None, keepdims=False, initial=None, where=None):
    ia = _int_array(a, initial)
    if ia is not None and dtype is None:
        kw = {} if initial is None else {'initial': initial}
        return _numpy.sum(ia, axis=axis, keepdims=keepdims, **kw)
    return _reduce(P.add, a, axis, initial, keepdims, empty=0.0)


@implements('prod')
def _prod(a, axis=None, dtype=None, out=None, keepdims=False, initial=None, where=None):
    ia = _int_array(a, initial)
    if ia is not None and dtype is None:
        kw = {} if initial is None else {'initial': initial}
        return _numpy.prod(ia, axis=axis, keepdims=keepdims, **kw)
    return _reduce(P.mul, a, axis, initial, keepdims, empty=1.0)


@implements('max', 'amax')
def _max(a, axis=None, out=None, keepdims=False, initial=None, where=None):
    return _reduce(P.smax, a, axis, initial, keepdims)


@implements('min', 'amin')
def _min(a, axis=None, out=None, keepdims=False, initial=None, where=None):
    return _reduce(P.smin, a, axis, initial, keepdims)


@implements('mean')
def _mean(a, axis=None, **k):
    a = np.asarray(_as_obj(a))
    n = a.size if axis is None else a.shape[axis]
    return _bcast_apply(P.div, _reduce(P.add, a, axis, None, empty=0.0), float(n))


@implements('cumsum')
def _cumsum(a, axis=None, dtype=None, out=None):
    a = np.asarray(_as_obj(a))
    if axis is None:
        a = a.reshape(-1)
        axis = 0
    return sym_ufunc(np.add, 'accumulate', a, axis=axis)


@implements('diff')
def _diff(a, n=1, axis=-1, **k):
    a = np.asarray(_as_obj(a)).view(SymArray)
    for _ in range(n):
        sl1 = [slice(None)] * a.ndim
        sl2 = [slice(None)] * a.ndim
        sl1[axis] = slice(1, None)
        sl2[axis] = slice(None, -1)
        a = a[tuple(sl1)] - a[tuple(sl2)]
    return a


@implements('dot')
def _dot(a, b, out=None):
    a = np.asarray(_as_obj(a), dtype=object)
    b = np.asarray(_as_obj(b), dtype=object)
    if a.ndim == 0 or b.ndim == 0:
        return _bcast_apply(P.mul, a, b)
    if a.ndim == 1 and b.ndim == 1:
        return _reduce(P.add, _bcast_apply(P.mul, a, b), None, None, empty=0.0)
    if a.ndim == 2 and b.ndim == 1:
        out_ = np.empty(a.shape[0], dtype=object)
        for i in range(a.shape[0]):
            out_[i] = _dot(a[i], b)
        return out_.view(SymArray)
    if a.ndim == 1 and b.ndim == 2:
        out_ = np.empty(b.shape[1], dtype=object)
        for j in range(b.shape[1]):
            out_[j] = _dot(a, b[:, j])
        return out_.view(SymArray)
    if a.ndim == 2 and b.ndim == 2:
        out_ = np.empty((a.shape[0], b.shape[1]), dtype=object)
        for i in range(a.shape[0]):
            for j in range(b.shape[1]):
                out_[i, j] = _dot(a[i], b[:, j])
        return out_.view(SymArray)
    raise SymError("dot with ndim>2")


@implements('matmul')
def _matmul(a, b, **k):
    return _dot(a, b)


@implements('vdot', 'inner')
def _inner(a, b):
    return _dot(a, b)


@implements('cross')
def _cross(a, b, **k):
    a = np.asarray(_as_obj(a), dtype=object)
    b = np.asarray(_as_obj(b), dtype=object)
    if a.shape != (3,) or b.shape != (3,):
        raise SymError("cross only for 3-vectors")
    m, s = P.mul, P.sub
    out = np.empty(3, dtype=object)
    out[0] = s(m(a[1], b[2]), m(a[2], b[1]))
    out[1] = s(m(a[2], b[0]), m(a[0], b[2]))
    out[2] = s(m(a[0], b[1]), m(a[1], b[0]))
    return out.view(SymArray)


@implements('norm')
def _norm(x, ord=None, axis=None, keepdims=False):
    x = np.asarray(_as_obj(x), dtype=object)
    if ord not in (None, 2) or axis is not None:
        raise SymError("only the 2-norm of a flat vector is supported")
    tot = 0.0
    for v in x.ravel():
        tot = P.add(tot, P.cabs2(v) if isinstance(v, (SymComplex, complex)) else P.mul(v, v))
    return P.sqrt(tot)


@implements('real')
def _real(a):
    return _map1(P.real_of, a)


@implements('imag')
def _imag(a):
    return _map1(P.imag_of, a)


@implements('conj', 'conjugate')
def _conjf(a):
    return _map1(_conj, a)


@implements('abs', 'absolute')
def _absf(a):
    return _map1(P.sabs, a)


@implements('copy')
def _copy(a, **k):
    return np.asarray(_as_obj(a)).copy().view(SymArray)


@implements('array_equal')
def _array_equal(a, b, equal_nan=False):
    a = np.asarray(_as_obj(a))
    b = np.asarray(_as_obj(b))
    if a.shape != b.shape:
        return False
    return _all(_bcast_apply(_eq, a, b))


@implements('allclose')
def _allclose(a, b, rtol=1e-05, atol=1e-08, equal_nan=False):
    return _all(_isclose(a, b, rtol=rtol, atol=atol))


@implements('isclose')
def _isclose(a, b, rtol=1e-05, atol=1e-08, equal_nan=False):
    def f(x, y):
        return P.cmp(P.sabs(P.sub(x, y)), P.add(atol, P.mul(rtol, P.sabs(y))), '<=')
    return _bcast_apply(f, a, b)


@implements('interp')
def _interp(x, xp, fp, left=None, right=None, period=None):
    if not has_sym(x) and not has_sym(xp) and not has_sym(period) and not has_sym(left) \
            and not has_sym(right):
        # concrete abscissae: np.interp is an affine map of fp; obtain its matrix from the
        # real numpy (this also covers period=)
        xs = np.asarray(np.asarray(_as_obj(x)).tolist(), dtype=float)
        xps = np.asarray(np.asarray(_as_obj(xp)).tolist(), dtype=float)
        fpo = np.asarray(_as_obj(fp), dtype=object).ravel()
        n = len(xps)
        kw = {} if period is None else {'period': period}
        if period is None:
            kw.update(left=left, right=right)
        shape = xs.shape
        xf = xs.ravel()
        const = np.interp(xf, xps, np.zeros(n), **({} if period is not None else
                                                    {'left': 0.0 if left is None else left,
                                                     'right': 0.0 if right is None else right}),
                          **({'period': period} if period is not None else {}))
        cols = []
        for i in range(n):
            e = np.zeros(n)
            e[i] = 1.0
            kw2 = {'period': period} if period is not None else \
                {'left': (None if left is None else 0.0), 'right': (None if right is None else 0.0)}
            cols.append(np.interp(xf, xps, e, **kw2))
        out = np.empty(len(xf), dtype=object)
        for j in range(len(xf)):
            acc = float(const[j])
            for i in range(n):
                w = cols[i][j]
                if w != 0.0:
                    acc = P.add(acc, P.mul(float(w), fpo[i]))
            out[j] = acc
        if shape == ():
            return out[0]
        return out.reshape(shape).view(SymArray)
    if period is not None:
        raise SymError("interp period with symbolic abscissae")
    xp = np.asarray(_as_obj(xp), dtype=object).ravel()
    fp = np.asarray(_as_obj(fp), dtype=object).ravel()
    if len(xp) != len(fp):
        raise ValueError("fp and xp are not of the same length.")
    if len(xp) == 0:
        raise ValueError("array of sample points is empty")
    lft = fp[0] if left is None else left
    rgt = fp[-1] if right is None else right

    def one(xv):
        # numpy semantics: x < xp[0] -> left ; x > xp[-1] -> right ; x == xp[j] -> fp[j]
        res = rgt
        # build from the right so that the first matching interval wins
        n = len(xp)
        res = P.ite(P.cmp(xv, xp[n - 1], '=='), fp[n - 1], res)
        for j in range(n - 2, -1, -1):
            dx = P.sub(xp[j + 1], xp[j])
            slope = P.div(P.sub(fp[j + 1], fp[j]), dx)
            val = P.add(fp[j], P.mul(slope, P.sub(xv, xp[j])))
            inside = P.sb_and(P.cmp(xv, xp[j], '>='), P.cmp(xv, xp[j + 1], '<'))
            res = P.ite(inside, val, res)
        res = P.ite(P.cmp(xv, xp[0], '<'), lft, res)
        return res
    return _map1(one, x)


@implements('linspace')
def _linspace(start, stop, num=50, endpoint=True, retstep=False, dtype=None, axis=0):
    num = int(num)
    div_ = (num - 1) if endpoint else num
    out = np.empty(num, dtype=object)
    step = P.div(P.sub(stop, start), float(div_)) if div_ > 0 else float('nan')
    for i in range(num):
        out[i] = P.add(start, P.mul(float(i), step)) if div_ > 0 else start
    if endpoint and num > 1:
        out[-1] = stop
    out = out.view(SymArray)
    if retstep:
        return out, step
    return out


@implements('roll')
def _roll(a, shift, axis=None):
    a = np.asarray(_as_obj(a))
    return np.roll(a, int(shift), axis).view(SymArray)


@implements('zeros_like')
def _zeros_like(a, dtype=None, **k):
    out = np.empty(np.shape(a), dtype=object)
    out[...] = 0.0
    return out.view(SymArray)


@implements('ones_like')
def _ones_like(a, dtype=None, **k):
    out = np.empty(np.shape(a), dtype=object)
    out[...] = 1.0
    return out.view(SymArray)


@implements('full_like')
def _full_like(a, fill_value, dtype=None, **k):
    out = np.empty(np.shape(a), dtype=object)
    out[...] = fill_value
    return out.view(SymArray)


@implements('piecewise')
def _piecewise(x, condlist, funclist, *args, **kw):
    x = to_obj(x)
    scalar = not isinstance(x, np.ndarray)
    xa = np.asarray(x, dtype=object).reshape(-1) if not scalar else \
        np.asarray([x], dtype=object)
    if _is_symval(condlist) or isinstance(condlist, (bool, np.bool_)) or (
            isinstance(condlist, np.ndarray) and condlist.ndim == xa.ndim and not scalar):
        condlist = [condlist]
    conds = [np.asarray(_as_obj(c), dtype=object).reshape(-1) if not scalar else
             np.asarray([c], dtype=object) for c in condlist]
    n = len(conds)
    n2 = len(funclist)
    if n2 == n + 1:
        default = funclist[-1]
    elif n2 == n:
        default = 0.0
    else:
        raise ValueError("piecewise: function list length mismatch")
    out = np.empty(xa.shape, dtype=object)
    for i in range(xa.size):
        xv = xa[i]
        res = default(np.asarray([xv], dtype=object).view(SymArray), *args, **kw)[0] \
            if callable(default) else default
        # later conditions override earlier ones in numpy.piecewise
        for c, fn in zip(conds, funclist[:n]):
            if isinstance(c[i], (bool, np.bool_)) and not c[i]:
                continue
            v = fn(np.asarray([xv], dtype=object).view(SymArray), *args, **kw)[0] \
                if callable(fn) else fn
            res = P.ite(c[i], v, res)
        out[i] = res
    if scalar:
        return out[0]
    return out.reshape(np.shape(x)).view(SymArray)


@implements('trapz', 'trapezoid')
def _trapz(y, x=None, dx=1.0, axis=-1):
    y = np.asarray(_as_obj(y), dtype=object).view(SymArray)
    nd = y.ndim
    sl1 = [slice(None)] * nd
    sl2 = [slice(None)] * nd
    sl1[axis] = slice(1, None)
    sl2[axis] = slice(None, -1)
    if x is None:
        d = dx
    else:
        xx = np.asarray(_as_obj(x), dtype=object).view(SymArray)
        if xx.ndim == 1:
            d = _diff(xx)
            shape = [1] * nd
            shape[axis] = d.shape[0]
            d = d.reshape(shape)
        else:
            d = _diff(xx, axis=axis)
    prod = _bcast_apply(P.mul, d, _bcast_apply(P.add, y[tuple(sl1)], y[tuple(sl2)]))
    return _bcast_apply(P.div, _reduce(P.add, prod, axis % nd, None, empty=0.0), 2.0)


@implements('broadcast_to')
def _broadcast_to(a, shape, subok=False):
    a = np.asarray(_as_obj(a), dtype=object)
    return np.broadcast_to(a, shape).copy().view(SymArray)


@implements('full')
def _full(shape, fill_value, dtype=None, **k):
    out = np.empty(shape, dtype=object)
    out[...] = fill_value
    return out.view(SymArray)


@implements('argmax', 'argmin', 'argsort', 'sort', 'searchsorted', 'unwrap')
def _needs_concrete(*a, **k):
    raise SymError("order-dependent numpy function on symbolic data (needs a harness-level "
                   "treatment)")


@implements('isscalar')
def _isscalar(x):
    return _is_symval(x) or np.isscalar(x)


@implements('ndim')
def _ndim(x):
    return np.asarray(_as_obj(x)).ndim if not _is_symval(x) else 0


@implements('shape')
def _shape(x):
    return np.asarray(_as_obj(x)).shape if not _is_symval(x) else ()


@implements('size')
def _size(x, axis=None):
    return np.asarray(_as_obj(x)).size if not _is_symval(x) else 1
