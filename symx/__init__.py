"""symx: bounded symbolic execution of real numpy/pyrex code with z3 (see DESIGN.md)."""
